#!/usr/bin/env python3
"""groundcheck.py <query.smt2> [term ...]: diagnosis aid.  Skolemises the exists of the 'instance at the goal's skolem
constants' lines, instantiates the goal's (negated) exists at those witnesses and at the given terms, drops every other
quantified assumption except a few cheap axioms, and reports sat/unsat plus the values of some terms.  unsat = a proof
exists with these instances (solver search problem); sat = a fact is missing (inspect the model)."""
import sys,re,subprocess
f=sys.argv[1]; terms=sys.argv[2:]
L=open(f).read().split('\n')
goal=max(i for i,l in enumerate(L) if l.startswith('(assert '))
def find_exists(s,start=0):
    i=s.find('(exists ((',start)
    if i<0: return None
    d=0
    for j in range(i,len(s)):
        if s[j]=='(': d+=1
        elif s[j]==')':
            d-=1
            if d==0: return i,j+1
def split_ex(s):
    # s = (exists ((v Int)) BODY)
    m=re.match(r'\(exists \(\((\S+) (\S+)\)\) ',s)
    return m.group(1),m.group(2),s[m.end():-1]
out=[];wits=[]
keepax=('sidx','s_len s) 0','atime')
for n,l in enumerate(L):
    if n==goal: break
    if l.startswith('(assert ') and ('(forall ' in l) and 'instance at the goal' not in l:
        if any(k in l for k in keepax) and len(l)<400: out.append(l)
        continue
    if 'instance at the goal' in l:
        while True:
            r=find_exists(l)
            if not r: break
            i,j=r; v,srt,body=split_ex(l[i:j])
            w='w%d_%d'%(n,len(wits)); wits.append((v,w)); out.append('(declare-const %s %s)'%(w,srt))
            l=l[:i]+re.sub(r'(?<![\w!.$])'+re.escape(v)+r'(?![\w!.$])',w,body)+l[j:]
        if '(forall ' in l: continue
    out.append(l)
g=L[goal]
r=find_exists(g)
if r:
    i,j=r; v,srt,body=split_ex(g[i:j])
    cands=[w for (vv,w) in wits if vv==v]+terms
    alts=[re.sub(r'(?<![\w!.$])'+re.escape(v)+r'(?![\w!.$])',c,body) for c in cands]
    g=g[:i]+'(or false '+' '.join(alts)+')'+g[j:]
if '(forall ' in g or '(exists ' in g: print('note: goal still quantified')
out.append(g); out.append('(check-sat)')
open('/tmp/gc.smt2','w').write('\n'.join(x for x in out if not x.startswith('(get-model')))
res=subprocess.run(['z3-new','-T:20','/tmp/gc.smt2'],capture_output=True,text=True).stdout
print([x for x in res.split('\n') if x and not x.startswith('WARN')][:2], 'witnesses',len(wits))
