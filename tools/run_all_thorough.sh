#!/bin/bash
# Runs every registered thorough check sequentially on the unchanged tree (slow; used before releases of the machinery).
cd /verif
for p in $(python3 -c "import json;print(' '.join(c['property_id'] for c in json.load(open('MANIFEST.json'))['checks']))"); do
  s=$(date +%s); out=$(bin/check $p --tier thorough 2>&1); rc=$?
  echo "$p exit=$rc $(( $(date +%s)-s ))s $(echo "$out" | grep "^property $p:" | tail -1 | cut -c1-100)"
  [ $rc -ne 0 ] && echo "$out" | grep "^VIOLATION\|^obligation\|^TOOL\|^STALE" | head -5
done
