#!/usr/bin/env python3
"""gen_results.py <run-output> : writes /verif/seeded/RESULTS.md from the output of tools/run_seeded.sh / run_seeded_wt.sh."""
import sys,re,json,os,subprocess
lines=[l.rstrip('\n') for l in open(sys.argv[1]) if l.startswith('SEED ')]
head=subprocess.run(['git','-C','/repo','log','--format=%h','-1'],capture_output=True,text=True).stdout.strip()
out=['# Seeded changes: last full run','',
 f'Every change under `seeded/<id>/` applied to a scratch worktree of /repo at commit {head} (or to /repo itself), the quick check of its property run,',
 'the change undone.  `exit=1` with at least one VIOLATION line = reported.  `replayed` counts violations whose counterexample was reproduced on the real code by a replay driver.','',
 '| change | reported | violations | replayed | first failing obligations |','|---|---|---|---|---|']
n=rep=0
for l in lines:
    m=re.match(r'SEED (\S+): exit=(\d+) violations=(\d+) replayed=(\d+) ?(.*)$',l)
    if not m:
        out.append(f'| {l} | ? | | | |'); continue
    sid,ex,nv,nr,rest=m.groups(); n+=1
    ok = ex=='1' and int(nv)>0
    rep+=ok
    obl='; '.join(x.replace('obligation ','').replace(' not discharged (sat)','').strip() for x in rest.split(';') if x.strip())
    out.append(f'| {sid} | {"yes" if ok else "**no**"} | {nv} | {nr} | {obl[:260]} |')
out+=['',f'{rep} of {n} reported.']
open('/verif/seeded/RESULTS.md','w').write('\n'.join(out)+'\n')
print(rep,'of',n,'reported')
