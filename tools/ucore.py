#!/usr/bin/env python3
"""z3 unsat core of a query file: prints the assert lines in the core (truncated)."""
import sys,subprocess,re
f=sys.argv[1]; w=int(sys.argv[2]) if len(sys.argv)>2 else 300
L=open(f).read().split('\n'); out=['(set-option :produce-unsat-cores true)','(set-option :smt.core.minimize true)']; names={}
n=0
for i,l in enumerate(L):
    if l.startswith('(assert '):
        body=l[len('(assert '):]
        # strip trailing comment
        c=body.find(' ; axiom')
        if c>=0: body=body[:c]
        body=body.rstrip()
        assert body.endswith(')'), l[:80]
        body=body[:-1]
        n+=1; names['a%d'%n]=(i+1,l)
        out.append('(assert (! %s :named a%d))'%(body,n))
    elif l.startswith('(get-model') or l.startswith('(set-option :produce-models'): continue
    else: out.append(l)
out.append('(get-unsat-core)')
open('/tmp/ucore.smt2','w').write('\n'.join(out))
r=subprocess.run(['z3-new','-T:30','smt.mbqi=false','/tmp/ucore.smt2'],capture_output=True,text=True).stdout
print(r.split('\n')[0])
core=re.findall(r'a\d+',r.split('\n',1)[1] if '\n' in r else '')
for a in core:
    i,l=names[a]; print(i,l[:w])
