#!/bin/bash
# usage: run_seeded_wt.sh <worktree> [SEED-ID ...] — like run_seeded.sh, but applies each seeded change in a scratch git worktree of /repo
# (same commit) and runs the check with -repo <worktree>, so that /repo itself is not touched.
cd /verif
WT=$1; shift
IDS="$@"; [ -z "$IDS" ] && IDS=$(ls seeded | grep '^C[0-9][0-9]-')
for id in $IDS; do
  P=${id%%-*}
  git -C $WT apply /verif/seeded/$id/patch.diff 2>/dev/null || git -C $WT apply /verif/seeded/$id/patch_original_tree.diff 2>/dev/null || { echo "SEED $id: patch does not apply"; continue; }
  out=$(GOVC_RUN=_seeded bin/govc check -repo $WT -prop $P -no-evidence 2>&1); rc=$?
  git -C $WT checkout -- . ; git -C $WT clean -fdq
  nv=$(echo "$out" | grep -c '^VIOLATION')
  nr=$(echo "$out" | grep '^VIOLATION' | grep -vc 'no-failing-input-found')
  echo "SEED $id: exit=$rc violations=$nv replayed=$nr $(echo "$out" | grep '^obligation' | head -2 | sed 's/github.com\/AdguardTeam\/AdGuardHome\/internal\///g' | cut -c1-160 | tr '\n' ';')"
done
