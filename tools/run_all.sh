#!/bin/bash
# Runs every registered quick check sequentially on the unchanged tree and validates the evidence files.
cd /verif
fail=0
for p in $(python3 -c "import json;print(' '.join(c['property_id'] for c in json.load(open('MANIFEST.json'))['checks']))"); do
  out=$(bin/check $p --tier quick 2>&1); rc=$?
  line=$(echo "$out" | grep "^property $p:" | tail -1)
  echo "$p exit=$rc $(echo "$line" | cut -c1-110)"
  echo "$out" | grep -q "^UNMATCHED-CALLSITE" && { fail=1; echo "$out" | grep "^UNMATCHED-CALLSITE"; }
  [ $rc -ne 0 ] && { fail=1; echo "$out" | grep "^VIOLATION\|^obligation\|^TOOL\|^STALE" | head -5; }
done
python3-vt - <<'PY'
import json,glob,jsonschema,sys
sch=json.load(open('/root/.vp/EVIDENCE.schema.json')); bad=0
for c in json.load(open('/verif/MANIFEST.json'))['checks']:
    f=c['evidence_file']
    try:
        d=json.load(open(f)); jsonschema.validate(d,sch)
        if d['coverage']['obligations']!=d['coverage']['discharged']: print('MISMATCH',f,d['coverage']['obligations'],d['coverage']['discharged']); bad=1
    except Exception as e: print('INVALID',f,e); bad=1
print('evidence ok' if not bad else 'evidence problems'); sys.exit(bad)
PY
exit $fail
