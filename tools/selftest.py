#!/usr/bin/env python3
"""Must-fail corpus runner: applies each in-memory edit through govc's -overlay and checks that the named obligation fails.
usage: selftest.py [PROP ...]   (runs all entries of /verif/selftest/*.json for the given properties; all if none given)
Each entry: {"id", "prop", "file" (relative to /repo), "old", "new", "expect": [substrings of failing obligation names], "func": optional filter}"""
import json,sys,os,subprocess,glob,tempfile
V='/verif'; R='/repo'
props=set(sys.argv[1:])
entries=[]
for f in sorted(glob.glob(V+'/selftest/*.json')):
    for e in json.load(open(f)):
        if not props or e['prop'] in props: entries.append(e)
ids=set(os.environ.get('SELFTEST_IDS','').split())  # optional: only these mutant ids
if ids: entries=[e for e in entries if e['id'] in ids]
os.makedirs(V+'/out/selftest',exist_ok=True)
fails=0
for e in entries:
    src=open(os.path.join(R,e['file'])).read()
    if e.get('first') and src.count(e['old'])>=1:
        src=src.replace(e['old'],e['new'],1); e=dict(e,old=e['new'],new=e['new'])
    if src.count(e['old'])!=1 and not e.get('first'):
        print(f"SELFTEST-STALE {e['id']}: pattern occurs {src.count(e['old'])} times"); fails+=1; continue
    mf=os.path.join(V,'out/selftest',e['id']+'_'+os.path.basename(e['file']))
    open(mf,'w').write(src.replace(e['old'],e['new']))
    ov=os.path.join(V,'out/selftest',e['id']+'.ov.json')
    json.dump({os.path.join(R,e['file']):mf},open(ov,'w'))
    cmd=[V+'/bin/govc','check','-prop',e['prop'],'-overlay',ov,'-no-evidence']
    if e.get('func'): cmd+=['-func',e['func']]
    p=subprocess.run(cmd,capture_output=True,text=True,env=dict(os.environ,GOFLAGS='-mod=mod',GOPROXY='off',GOVC_RUN=os.environ.get('GOVC_RUN','_selftest')))
    out=p.stdout
    viol=[l for l in out.splitlines() if l.startswith('obligation ') or l.startswith('vacuity')]
    ok=p.returncode==1 and all(any(x in l for l in viol) for x in e['expect'])
    repro=sum(1 for l in out.splitlines() if l.startswith('VIOLATION') and 'no-failing-input-found' not in l)
    print(f"{'ok  ' if ok else 'MISS'} {e['id']:28s} exit={p.returncode} failing={len(viol)} reproduced={repro}  {e.get('note','')}")
    if not ok:
        fails+=1
        print('   expected',e['expect'],'got',viol[:6], p.stderr[-300:])
print(f"selftest: {len(entries)-fails}/{len(entries)} mutants detected")
sys.exit(1 if fails else 0)
