#!/usr/bin/env python3
"""slowfinder.py <file.smt2> [timeout]: drop each quantified assumption in turn and report the ones whose removal lets
the solver answer quickly (diagnosis of solver-hostile assumptions; never used by the checks themselves)."""
import sys, subprocess, os, tempfile, concurrent.futures as cf
f = sys.argv[1]; T = int(sys.argv[2]) if len(sys.argv) > 2 else 5
lines = open(f).read().split('\n')
goal = max(i for i, l in enumerate(lines) if l.startswith('(assert '))
cands = [i for i, l in enumerate(lines) if l.startswith('(assert ') and '(forall ' in l and i != goal]
def run(skip):
    fd, p = tempfile.mkstemp(suffix='.smt2'); os.close(fd)
    open(p, 'w').write('\n'.join(l for i, l in enumerate(lines) if i not in skip and not l.startswith('(get-model')))
    try:
        out = subprocess.run(['z3-new', f'-T:{T}', p], capture_output=True, text=True).stdout
    finally:
        os.unlink(p)
    v = [l for l in out.split('\n') if l and not l.startswith('WARNING')]
    return v[0] if v else '?'
print('baseline', run(set()))
with cf.ThreadPoolExecutor(16) as ex:
    for i, r in zip(cands, ex.map(lambda i: run({i}), cands)):
        if r in ('unsat', 'sat'):
            print(i + 1, r, lines[i][:160])
print('all-quantified-dropped', run(set(cands)))
