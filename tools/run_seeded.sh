#!/bin/bash
# usage: run_seeded.sh [SEED-ID ...]  — applies each seeded change to /repo, runs the property's quick check, undoes the change.
cd /verif
IDS="$@"; [ -z "$IDS" ] && IDS=$(ls seeded)
if [ -n "$(git -C /repo status --porcelain)" ]; then echo "refusing: /repo has uncommitted changes (commit contract files first)"; exit 2; fi
for id in $IDS; do
  P=${id%%-*}
  if ! python3 -c "import json,sys; m=json.load(open('/verif/MANIFEST.json')); sys.exit(0 if any(c['property_id']=='$P' for c in m['checks']) else 1)"; then
     [ -f specs/props/$P.json ] || { echo "SEED $id: no check for $P yet"; continue; }
  fi
  git -C /repo apply /verif/seeded/$id/patch.diff || { echo "SEED $id: patch does not apply"; continue; }
  out=$(bin/check $P --tier quick 2>&1); rc=$?
  git -C /repo checkout -- .
  nv=$(echo "$out" | grep -c '^VIOLATION')
  nr=$(echo "$out" | grep '^VIOLATION' | grep -vc 'no-failing-input-found')
  echo "SEED $id: exit=$rc violations=$nv replayed=$nr $(echo "$out" | grep '^obligation' | head -3 | sed 's/github.com\/AdguardTeam\/AdGuardHome\/internal\///' | tr '\n' ';')"
done
