#!/bin/bash
# usage: verify_seed.sh <PROP> <k>   — confirms a sub-agent's seeded change in a scratch worktree and imports it to /verif/seeded/<PROP>-<k>/
# Confirms: patch applies to /repo HEAD, builds, demo test FAILS with it, existing tests of the touched packages pass, demo PASSES without it.
set -u
export GOFLAGS=-mod=mod GOPROXY=off
P=$1; K=$2; DK=${3:-$2}   # optional third argument: index under which the change is stored in /verif/seeded
SRC=/tmp/wt/$P/out/$K
WT=/tmp/wt/verify_${P}_${K}
LOG=/tmp/wt/verify_${P}_${K}.log
rm -rf $WT; git -C /repo worktree prune
git -C /repo worktree add -q --detach $WT HEAD || exit 2
cd $WT
BASE=HEAD
if ! git apply --check $SRC/patch.diff 2>/dev/null; then
  echo "patch does not apply to HEAD; verifying against original snapshot" | tee $LOG
  git checkout -q dc66c23; BASE=dc66c23
  git apply --check $SRC/patch.diff || { echo "RESULT $P-$K patch-does-not-apply"; git -C /repo worktree remove --force $WT; exit 1; }
fi
DEMO=$(ls $SRC/*_test.go | head -1)
PKGS=$(grep '^+++ b/' $SRC/patch.diff | sed 's#+++ b/##' | xargs -n1 dirname | sort -u)
DEMOPKG=$(grep -l "TestSeededDemo${P}_${K}" $SRC/*_test.go | head -1)
# place the demo in the package named in its package clause: find dir by notes or by patch dir
DPKGNAME=$(grep -m1 '^package ' $DEMO | awk '{print $2}' | sed 's/_test$//')
DDIR=""
for d in $PKGS; do if grep -qs "^package $DPKGNAME\b" $d/*.go; then DDIR=$d; break; fi; done
if [ -z "$DDIR" ]; then DDIR=$(grep -rl --include=*.go "^package $DPKGNAME$" internal | head -1 | xargs dirname); fi
cp $DEMO $DDIR/
TN="TestSeededDemo${P}_${K}"
git apply $SRC/patch.diff
go build ./... >>$LOG 2>&1 || { echo "RESULT $P-$K build-fails"; cd /; git -C /repo worktree remove --force $WT; exit 1; }
go test -vet=off -count=1 -run "^$TN\$" ./$DDIR/ >>$LOG 2>&1; WITH=$?
SUITE=0
for d in $PKGS $DDIR; do go test -vet=off -count=1 -skip SeededDemo ./$d/... >>$LOG 2>&1 || SUITE=1; done
git apply -R $SRC/patch.diff
go test -vet=off -count=1 -run "^$TN\$" ./$DDIR/ >>$LOG 2>&1; WITHOUT=$?
cd /; git -C /repo worktree remove --force $WT
if [ $WITH -ne 0 ] && [ $SUITE -eq 0 ] && [ $WITHOUT -eq 0 ]; then
  D=/verif/seeded/$P-$DK; mkdir -p $D
  cp $SRC/patch.diff $D/patch.diff; cp $DEMO $D/; cp $SRC/notes.md $D/notes.md 2>/dev/null
  python3 - "$P" "$DK" "$DDIR" "$BASE" "$TN" "$PKGS" <<'PY'
import json,sys
P,K,DDIR,BASE,TN,PKGS=sys.argv[1:7]
json.dump({"property":P,"id":f"{P}-{K}","demo_dir":DDIR,"demo_test":TN,"verified_against":BASE,"touched_packages":PKGS.split(),
 "needs":"see notes.md (written by the independent sub-agent)","confirmed":{"demo_fails_with_patch":True,"package_tests_pass_with_patch":True,"demo_passes_without_patch":True,"build_ok":True},
 "ran":["git apply patch.diff","go build ./...",f"go test -run ^{TN}$ ./{DDIR}/ (fails)","go test -skip SeededDemo ./<touched pkgs>/... (pass)","git apply -R",f"go test -run ^{TN}$ ./{DDIR}/ (passes)"]},
 open(f"/verif/seeded/{P}-{K}/meta.json","w"),indent=1)
PY
  echo "RESULT $P-$DK confirmed base=$BASE demo_dir=$DDIR (agent variant $K)"
else
  echo "RESULT $P-$K REJECTED with=$WITH suite=$SUITE without=$WITHOUT (see $LOG)"
fi
