#!/usr/bin/env python3
"""Generates /verif/MANIFEST.json from /verif/specs/manifest_src.json (claimed checks) and properties.jsonl (not_applicable for the rest)."""
import json,subprocess
V='/verif'
props=[json.loads(l) for l in open(V+'/properties.jsonl')]
src=json.load(open(V+'/specs/manifest_src.json'))
hooks=subprocess.run(['git','-C','/repo','log','--format=%h %s'],capture_output=True,text=True).stdout.splitlines()
hook_commits=[l.split()[0] for l in hooks if l.split(' ',1)[1].startswith('verif:')]
checks=[]
for pid,c in sorted(src['checks'].items()):
    checks.append({"property_id":pid,"quick_cmd":f"bin/check {pid} --tier quick","thorough_cmd":f"bin/check {pid} --tier thorough",
      "evidence_file":f"/verif/evidence/{pid}.json","replay_cmd_template":f"bin/check {pid} --replay {{path}}","engine":"govc",
      "level_claimed":{"category":"proof","text":c['text'],"design_ref":c.get('design_ref','DESIGN.md section 7/'+pid)},
      "level_note":c['note'],"technique":c.get('technique',"contract-based deductive verification: weakest-precondition VCs over go/ssa of the real code, discharged by z3/cvc5")})
na=[{"property_id":p['id'],"reason":src['not_applicable'].get(p['id'],"contracts for this property are not built yet (engine under construction); no other technique is substituted")} for p in props if p['id'] not in src['checks']]
m={"version":1,
 "setup_cmd":"cd /verif/govc && GOFLAGS=-mod=mod GOPROXY=off go build -o /verif/bin/govc .",
 "hooks":{"guard":"verif","enable":"-tags=verif: contract files internal/<pkg>/zz_contracts_verif.go are comment-only Go files behind //go:build verif; govc loads /repo with that tag and reads the //@ lines",
   "baseline_off_cmd":"cd /repo && GOFLAGS=-mod=mod GOPROXY=off go test -vet=off -count=1 -timeout 25m ./...","source_commits":hook_commits,"add_only":True},
 "engines":[{"name":"govc","path":"/verif/govc","serves_properties":sorted(src['checks'].keys()),"kind_free_text":"deductive verifier for Go written for this task: go/packages+go/ssa front end, Gobra-style //@ contracts, forward VC generation (passive DAG form, loops cut by invariants, calls replaced by contracts, per-field heap), one SMT-LIB query per named obligation, z3 5.1 / z3 4.8 / cvc5 back ends, counter-model replay on the real code via go test -overlay"}],
 "checks":checks,"not_applicable":na,
 "notes":src.get('notes','')}
json.dump(m,open(V+'/MANIFEST.json','w'),indent=1)
print(len(checks),'checks,',len(na),'not applicable')
