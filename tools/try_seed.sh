#!/bin/bash
# usage: try_seed.sh <SEED-ID> [func-filter]  — in the scratch worktree /tmp/sw: runs the property's check on the clean tree, then with the seed applied.
# (development helper; uses bin/govc -repo /tmp/sw so that /repo is not touched)
cd /verif
id=$1; P=${id%%-*}; F=${2:+-func $2}
GOVC=${GOVC:-bin/govc}
echo "-- clean:"; $GOVC check -repo /tmp/sw -prop $P -no-evidence $F 2>&1 | grep "^obligation\|STALE\|rror\|^property\|UNMATCHED" | cut -c1-260
git -C /tmp/sw apply /verif/seeded/$id/patch.diff || exit 1
echo "-- with $id:"; $GOVC check -repo /tmp/sw -prop $P -no-evidence $F 2>&1 | grep "^obligation\|STALE\|rror\|^property" | cut -c1-260
git -C /tmp/sw apply -R /verif/seeded/$id/patch.diff
