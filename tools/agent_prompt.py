#!/usr/bin/env python3
"""Prints the prompt given to an independent mutation sub-agent for property <id> (text of the property only)."""
import json,sys
pid=sys.argv[1]; n=sys.argv[2] if len(sys.argv)>2 else "2"
p=[json.loads(l) for l in open('/verif/properties.jsonl') if json.loads(l)['id']==pid][0]
print(f"""You are helping to evaluate a verification effort for the open-source project AdguardTeam/AdGuardHome (a Go DNS ad-blocking server with DHCP, query log, statistics, and admin web API).

You have your own scratch git worktree of the repository at /tmp/wt/{pid} (work ONLY there; never touch /repo or /verif, and do not read anything under /verif). The sandbox has no network. For every shell command that uses Go, first run: export GOFLAGS=-mod=mod GOPROXY=off   (do NOT set GOTOOLCHAIN or GOSUMDB). Running a package's tests looks like: cd /tmp/wt/{pid} && go test -vet=off -count=1 ./internal/<pkg>/...

Here is a semantic property that AdGuardHome is supposed to satisfy:

  id: {p['id']}
  title: {p['title']}
  statement: {p['statement']}
  quantified over: {p['quantifier']['text']}
  code anchors (files): {', '.join(p['anchors']['files'])}

YOUR TASK: produce {n} DIFFERENT realistic code changes (as a developer might make by mistake during a refactor, an optimisation or a feature tweak) to the non-test Go source of AdGuardHome, each of which BREAKS this property while (a) the code still compiles (go build ./... and go vet-free test compilation) and (b) the existing test suite of every package you touched, plus packages that import it directly among internal/..., still passes unedited. Each change must need something specific to manifest — an unusual input, a multi-step sequence of operations, a particular boundary value, a fault at a particular point, or two cooperating sites that each look fine alone — NOT something that ordinary use or the existing tests would expose at once. Keep each change small (a few lines), plausible, and touching only non-test files. Prefer changes in different functions / different mechanisms of the property for the different variants.

For each variant k = 1..{n}:
  1. Start from a clean worktree (git -C /tmp/wt/{pid} checkout -- . && git -C /tmp/wt/{pid} clean -fdq -e out).
  2. Make the change. Write a demonstration: a NEW Go test file (name it zz_seeded_demo{pid}_k_test.go, in the package of the code concerned, using only the standard library + what the package's tests already import) containing one test function that FAILS with your change and PASSES without it, by exercising the real code and checking the property's observable behaviour.
  3. Verify yourself: with the change, the demonstration test fails; the existing tests of the touched package(s) still pass (run them excluding your demo, e.g. go test -vet=off -count=1 -skip 'SeededDemo' ./internal/<pkg>/...); go build ./... succeeds. Then revert the source change (keep the demo file) and check the demonstration passes on the original code.
  4. Save into /tmp/wt/{pid}/out/k/ : patch.diff (output of `git diff` for the non-test source change ONLY, applicable with `git apply` at the repository root), the demonstration test file (copy), and notes.md saying: what the change is, what it needs in order to manifest, exact commands you ran and their outcomes.
Name the test function TestSeededDemo{pid}_k.

When done, leave the worktree clean except for the out/ directory, and reply with a short summary per variant (file/function changed, trigger, demo test name, and whether all verifications succeeded). If you cannot find a change satisfying all constraints for a variant, say so honestly rather than delivering one that fails the constraints.""")
