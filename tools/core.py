#!/usr/bin/env python3
"""Finds which assumptions an unsat query needs: removes assert lines one at a time (greedy) and prints the essential ones."""
import sys,subprocess,tempfile,os
f=sys.argv[1]; lines=open(f).read().split('\n')
idx=[i for i,l in enumerate(lines) if l.startswith('(assert ')]
goal=idx[-1]; cand=idx[:-1]
def unsat(drop):
    t=tempfile.NamedTemporaryFile('w',suffix='.smt2',delete=False)
    t.write('\n'.join(l for i,l in enumerate(lines) if i not in drop and not l.startswith('(get-model')));t.close()
    r=subprocess.run(['z3-new','-T:5',t.name],capture_output=True,text=True).stdout.split('\n')[0]
    os.unlink(t.name); return r=='unsat'
drop=set()
assert unsat(drop), "not unsat"
# chunked removal
chunk=max(1,len(cand)//8)
while chunk>=1:
    i=0
    while i<len(cand):
        c=[x for x in cand[i:i+chunk] if x not in drop]
        if c and unsat(drop|set(c)): drop|=set(c)
        i+=chunk
    chunk//=2
for i in cand:
    if i not in drop: print(i+1, lines[i][:int(sys.argv[2]) if len(sys.argv)>2 else 300])
