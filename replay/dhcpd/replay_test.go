package dhcpd

// Replay driver for C10 counterexamples (injected with go test -overlay; never part of the repository).

import (
	"net"
	"net/netip"
	"testing"

	"github.com/AdguardTeam/AdGuardHome/internal/dhcpsvc"
	"github.com/insomniacslk/dhcp/dhcpv4"
)

func replayServer(t *testing.T) *v4Server {
	t.Helper()
	conf := &V4ServerConf{
		Enabled:    true,
		RangeStart: netip.MustParseAddr("192.168.10.100"),
		RangeEnd:   netip.MustParseAddr("192.168.10.101"),
		GatewayIP:  netip.MustParseAddr("192.168.10.1"),
		SubnetMask: netip.MustParseAddr("255.255.255.0"),
		notify:     func(uint32) {},
	}
	s, err := v4Create(conf)
	if err != nil {
		t.Fatalf("creating server: %v", err)
	}
	return s
}

// TestReplayC10StaticOutsidePool: a static reservation outside the dynamic pool must not consume a pool address.
func TestReplayC10StaticOutsidePool(t *testing.T) {
	s := replayServer(t)
	err := s.AddStaticLease(&dhcpsvc.Lease{
		IP:       netip.MustParseAddr("192.168.10.50"),
		HWAddr:   net.HardwareAddr{0xAA, 0xAA, 0xAA, 0xAA, 0xAA, 0xAA},
		Hostname: "static",
	})
	if err != nil {
		t.Fatalf("adding static lease: %v", err)
	}
	if s.leasedOffsets.isSet(0) {
		t.Errorf("GOVC-REPRODUCED: pool offset 0 (192.168.10.100) is marked leased by a reservation for 192.168.10.50")
	}
	if ip := s.nextIP(); !ip.Equal(net.IP{192, 168, 10, 100}) {
		t.Errorf("GOVC-REPRODUCED: first free pool address offered is %v, want 192.168.10.100", ip)
	}
}

// TestReplayC10RemoveStaticOutsidePool: removing such a reservation must not free a pool address that is leased.
func TestReplayC10RemoveStaticOutsidePool(t *testing.T) {
	s := replayServer(t)
	dyn := &dhcpsvc.Lease{IP: netip.MustParseAddr("192.168.10.100"), HWAddr: net.HardwareAddr{1, 2, 3, 4, 5, 6}, Hostname: "dyn"}
	s.leasesLock.Lock()
	err := s.addLease(dyn)
	s.leasesLock.Unlock()
	if err != nil {
		t.Fatal(err)
	}
	st := &dhcpsvc.Lease{IP: netip.MustParseAddr("192.168.10.50"), HWAddr: net.HardwareAddr{0xAA, 0xAA, 0xAA, 0xAA, 0xAA, 0xAA}, Hostname: "static"}
	if err = s.AddStaticLease(st); err != nil {
		t.Fatal(err)
	}
	if err = s.RemoveStaticLease(st); err != nil {
		t.Fatal(err)
	}
	if !s.leasedOffsets.isSet(0) {
		t.Errorf("GOVC-REPRODUCED: removing the reservation for 192.168.10.50 freed pool offset 0, which is leased to %v", dyn.HWAddr)
	}
}

// TestReplayC10TwoConflictingDynamic: a static lease whose MAC matches one dynamic lease and whose address matches the
// next one must evict both.
func TestReplayC10TwoConflictingDynamic(t *testing.T) {
	s := replayServer(t)
	macA := net.HardwareAddr{1, 1, 1, 1, 1, 1}
	macB := net.HardwareAddr{2, 2, 2, 2, 2, 2}
	s.leasesLock.Lock()
	_ = s.addLease(&dhcpsvc.Lease{IP: netip.MustParseAddr("192.168.10.100"), HWAddr: macA, Hostname: "a"})
	_ = s.addLease(&dhcpsvc.Lease{IP: netip.MustParseAddr("192.168.10.101"), HWAddr: macB, Hostname: "b"})
	s.leasesLock.Unlock()
	// reservation: MAC of the first lease, address of the second
	err := s.AddStaticLease(&dhcpsvc.Lease{IP: netip.MustParseAddr("192.168.10.101"), HWAddr: macA, Hostname: "res"})
	if err != nil {
		t.Fatalf("adding static lease: %v", err)
	}
	n := 0
	for _, l := range s.leases {
		if l.IP == netip.MustParseAddr("192.168.10.101") {
			n++
		}
	}
	if n != 1 {
		t.Errorf("GOVC-REPRODUCED: %d leases hold 192.168.10.101 after the reservation was added", n)
	}
}

// TestReplayC10Decline: after a DECLINE the client's replacement lease must be in the table exactly once, and the lease
// database must be written after the table changed.
func TestReplayC10Decline(t *testing.T) {
	s := replayServer(t)
	s.conf.ICMPTimeout = 0
	var old *dhcpsvc.Lease
	storeSawOld := []bool{}
	s.conf.notify = func(flags uint32) {
		if flags == LeaseChangedDBStore {
			saw := false
			for _, l := range s.leases {
				if l == old {
					saw = true
				}
			}
			storeSawOld = append(storeSawOld, saw)
		}
	}
	mac := net.HardwareAddr{1, 2, 3, 4, 5, 6}
	old = &dhcpsvc.Lease{IP: netip.MustParseAddr("192.168.10.100"), HWAddr: mac, Hostname: "cli"}
	s.leasesLock.Lock()
	err := s.addLease(old)
	s.leasesLock.Unlock()
	if err != nil {
		t.Fatal(err)
	}
	req, err := dhcpv4.NewDiscovery(mac)
	if err != nil {
		t.Fatal(err)
	}
	req.UpdateOption(dhcpv4.OptMessageType(dhcpv4.MessageTypeDecline))
	req.UpdateOption(dhcpv4.OptRequestedIPAddress(net.IP{192, 168, 10, 100}))
	resp, err := dhcpv4.NewReplyFromRequest(req)
	if err != nil {
		t.Fatal(err)
	}
	if err = s.handleDecline(req, resp); err != nil {
		t.Fatalf("handleDecline: %v", err)
	}
	seen := map[*dhcpsvc.Lease]int{}
	for _, l := range s.leases {
		seen[l]++
	}
	for l, n := range seen {
		if n > 1 {
			t.Errorf("GOVC-REPRODUCED: after DECLINE the lease %s (%s) occurs %d times in the lease table (and in leases.json)", l.IP, l.HWAddr, n)
		}
	}
	for _, saw := range storeSawOld {
		if saw {
			t.Errorf("GOVC-REPRODUCED: the database store was requested while the declined lease was still in the table (before the change)")
		}
	}
	if len(storeSawOld) == 0 {
		t.Errorf("GOVC-REPRODUCED: no database store was requested for the DECLINE")
	}
}
