package filtering

// Replay driver for the C15 obligation on filterSetProperties (injected with go test -overlay): a list change that fails
// must leave the list as it was - its checksum included - so that the next refresh of unchanged content rewrites nothing.

import (
	"fmt"
	"net/http"
	"os"
	"testing"
)

func TestGovcReplaySetPropertiesFailure(t *testing.T) {
	const content = "||one.example^\n||two.example^\n"
	good := serveFiltersLocally(t, []byte(content))
	bad := serveHTTPLocally(t, http.HandlerFunc(func(w http.ResponseWriter, _ *http.Request) {
		w.WriteHeader(http.StatusInternalServerError)
	}))

	d := newDNSFilter(t)
	d.conf.Filters = []FilterYAML{{Filter: Filter{ID: 1}, Enabled: true, URL: good, Name: "list"}}
	flt := &d.conf.Filters[0]
	if ok, err := d.update(flt); err != nil || !ok {
		t.Skipf("first refresh did not succeed: %v %v", ok, err)
	}
	sumBefore, countBefore := flt.checksum, flt.RulesCount
	fiBefore, _ := os.Stat(flt.Path(d.conf.DataDir))

	_, err := d.filterSetProperties(good, FilterYAML{Enabled: true, URL: bad, Name: "list"}, false)
	fmt.Printf("set_url to a failing server: err=%v url restored=%v checksum before=%d after=%d count before=%d after=%d\n",
		err, flt.URL == good, sumBefore, flt.checksum, countBefore, flt.RulesCount)
	if err == nil {
		t.Skip("the change did not fail")
	}
	if sumAfter := flt.checksum; sumAfter != sumBefore {
		upd, uerr := d.update(flt)
		fiAfter, _ := os.Stat(flt.Path(d.conf.DataDir))
		fmt.Printf("GOVC-REPRODUCED a failed URL change left checksum %d (was %d); the next refresh of unchanged content reports updated=%v err=%v and rewrote the file: %v\n",
			sumAfter, sumBefore, upd, uerr, !os.SameFile(fiBefore, fiAfter))
	}
}
