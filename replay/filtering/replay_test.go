package filtering

// Replay driver for C06 obligations (injected with go test -overlay; never part of the repository).  The failed
// obligations of the rewrite contracts carry quantified models that cannot be read off directly, so the driver searches
// a small family of rewrite tables, hosts and query types for an input on which the REAL functions contradict the
// contract named in the replay file, and prints it.

import (
	"fmt"
	"strings"
	"testing"

	"github.com/miekg/dns"
)

func replayMk(dom, ans string) *LegacyRewrite {
	rw := &LegacyRewrite{Domain: dom, Answer: ans}
	_ = rw.normalize()

	return rw
}

func replayCands() []*LegacyRewrite {
	return []*LegacyRewrite{
		replayMk("a.example", "1.2.3.4"), replayMk("*.example", "1.2.3.5"), replayMk("*.a.example", "1.2.3.6"),
		replayMk("a.example", "b.example"), replayMk("*.example", "c.example"), replayMk("a.example", "::1"),
		replayMk("*.b.a.example", "d.example"), replayMk("q.b.a.example", "A"), replayMk("*.b.a.example", "::2"),
	}
}

func replayWild(p string) bool { return len(p) > 1 && p[0] == '*' && p[1] == '.' }

// replayBefore is the documented order: CNAME before addresses; exact before wildcard; longer wildcard first.
func replayBefore(a, b *LegacyRewrite) bool {
	ac, bc := a.Type == dns.TypeCNAME, b.Type == dns.TypeCNAME
	if ac != bc {
		return ac
	}
	aw, bw := replayWild(a.Domain), replayWild(b.Domain)
	if aw != bw {
		return !aw
	}

	return len(a.Domain) > len(b.Domain)
}

func replayHostMatches(e *LegacyRewrite, host string) bool {
	return e.Domain == host || (replayWild(e.Domain) && strings.HasSuffix(host, e.Domain[1:]))
}

func replayTypeMatches(e *LegacyRewrite, qt uint16) bool {
	return e.Type == dns.TypeCNAME || ((qt == dns.TypeA || qt == dns.TypeAAAA) && (e.Type == qt || !e.IP.IsValid()))
}

func TestGovcReplayRewrites(t *testing.T) {
	found := 0
	report := func(format string, args ...any) {
		found++
		if found <= 5 {
			fmt.Printf("GOVC-REPRODUCED "+format+"\n", args...)
		}
	}
	cands := replayCands()
	for _, a := range cands {
		for _, b := range cands {
			res := a.Compare(b)
			if (res < 0) != replayBefore(a, b) || (res > 0) != replayBefore(b, a) {
				report("Compare(%s->%s, %s->%s) = %d contradicts the documented order", a.Domain, a.Answer, b.Domain, b.Answer, res)
			}
		}
	}
	qtypes := []uint16{dns.TypeA, dns.TypeAAAA, dns.TypeCNAME, dns.TypeTXT, dns.TypeHTTPS, dns.TypeANY}
	for _, e := range cands {
		for _, qt := range qtypes {
			if got, want := e.matchesQType(qt), replayTypeMatches(e, qt); got != want {
				report("matchesQType(%s->%s, %s) = %t, want %t", e.Domain, e.Answer, dns.Type(qt), got, want)
			}
		}
	}
	hosts := []string{"a.example", "x.a.example", "b.a.example", "q.b.a.example", "z.q.b.a.example", "example", "other.org", "badexample"}
	for _, h := range hosts {
		for _, w := range []string{"*.example", "*.a.example"} {
			if got, want := matchDomainWildcard(h, w), strings.HasSuffix(h, w[1:]); got != want {
				report("matchDomainWildcard(%q, %q) = %t, want %t", h, w, got, want)
			}
		}
		for _, qt := range qtypes {
			rws, matched := findRewrites(cands, h, qt)
			anyHost, anyVal := false, false
			for _, e := range cands {
				if replayHostMatches(e, h) {
					anyHost = true
					if replayTypeMatches(e, qt) {
						anyVal = true
					}
				}
			}
			if matched != anyHost {
				report("findRewrites(%q, %s): matched = %t, want %t", h, dns.Type(qt), matched, anyHost)
			}
			if anyVal && len(rws) == 0 {
				report("findRewrites(%q, %s) returned nothing although an entry with a value matches", h, dns.Type(qt))
			}
			for i, r := range rws {
				if !replayHostMatches(r, h) || !replayTypeMatches(r, qt) {
					report("findRewrites(%q, %s)[%d] = %s->%s does not match host and type", h, dns.Type(qt), i, r.Domain, r.Answer)
				}
				if i > 0 && replayWild(r.Domain) {
					report("findRewrites(%q, %s) returns the wildcard %s next to other entries", h, dns.Type(qt), r.Domain)
				}
			}
			if len(rws) > 0 {
				for _, e := range cands {
					if replayHostMatches(e, h) && replayTypeMatches(e, qt) && replayBefore(e, rws[0]) {
						report("findRewrites(%q, %s)[0] = %s->%s but %s->%s comes first in the documented order", h, dns.Type(qt), rws[0].Domain, rws[0].Answer, e.Domain, e.Answer)
					}
				}
			}
			res := Result{}
			setRewriteResult(&res, h, rws, qt)
			for _, ip := range res.IPList {
				ok := false
				for _, r := range rws {
					if r.IP == ip && r.Type == qt && ip.IsValid() {
						ok = true
					}
				}
				if !ok {
					report("setRewriteResult(%q, %s) produced %s which is not an address of a returned entry of that family", h, dns.Type(qt), ip)
				}
			}
		}
	}
	if found == 0 {
		fmt.Println("GOVC-NOT-REPRODUCED no contradicting input in the searched family")
	}
}
