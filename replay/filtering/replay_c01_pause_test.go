package filtering

// Replay driver for the C01 obligation on SetProtectionEnabled (injected with go test -overlay): switching protection on
// through the dns_config API during a pause must end the pause.

import (
	"fmt"
	"testing"
	"time"
)

func TestGovcReplayProtectionPause(t *testing.T) {
	d := newDNSFilter(t)
	until := time.Now().Add(time.Hour)
	d.SetProtectionStatus(false, &until) // POST /control/protection {"enabled":false,"duration":3600000}
	d.SetProtectionEnabled(true)         // POST /control/dns_config {"protection_enabled":true}
	enabled, disabledUntil := d.ProtectionStatus()
	fmt.Printf("after pause + dns_config protection_enabled=true: enabled=%v disabled_until=%v\n", enabled, disabledUntil)
	if enabled && disabledUntil != nil && time.Now().Before(*disabledUntil) {
		fmt.Println("GOVC-REPRODUCED protection is reported enabled while the pause deadline is still in force: requests are not filtered until it passes")
	}
}
