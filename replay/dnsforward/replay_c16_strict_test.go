package dnsforward

// Replay driver for the C16 obligation strict-rejects-a-foreign-server-name of clientIDFromDNSContext (injected with
// go test -overlay): with strict server-name checking, a DoH request whose path carries a ClientID is accepted whatever
// server name its connection presents.

import (
	"crypto/tls"
	"fmt"
	"net/http"
	"net/url"
	"os"
	"strings"
	"testing"

	"github.com/AdguardTeam/dnsproxy/proxy"
)

func TestGovcReplayStrictForeignName(t *testing.T) {
	if p := os.Getenv("GOVC_REPLAY"); p != "" {
		data, _ := os.ReadFile(p)
		if !strings.Contains(string(data), "strict-rejects-a-foreign-server-name") {
			t.Skip("driver is for the strict-rejects-a-foreign-server-name obligation only")
		}
	}

	s := &Server{conf: ServerConfig{TLSConf: &TLSConfig{
		ServerName:     "dns.example.com",
		StrictSNICheck: true,
	}}}

	for _, tc := range []struct{ path, sni string }{
		{"/dns-query", "evil.example.org"},
		{"/dns-query/cli", "evil.example.org"},
		{"/dns-query/cli", "cli.dns.example.com.evil.org"},
	} {
		pctx := &proxy.DNSContext{
			Proto: proxy.ProtoHTTPS,
			HTTPRequest: &http.Request{
				URL: &url.URL{Path: tc.path},
				TLS: &tls.ConnectionState{ServerName: tc.sni},
			},
		}
		id, err := s.clientIDFromDNSContext(pctx)
		fmt.Printf("strict on, configured %q: DoH path %q over a connection presenting %q -> ClientID %q, err %v\n",
			s.conf.TLSConf.ServerName, tc.path, tc.sni, id, err)
		if err == nil {
			fmt.Printf("GOVC-REPRODUCED strict server-name checking accepts server name %q (outside %q) for DoH path %q, ClientID %q\n",
				tc.sni, s.conf.TLSConf.ServerName, tc.path, id)

			return
		}
	}
}
