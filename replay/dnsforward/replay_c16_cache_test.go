package dnsforward

// Replay driver for the C16 obligation on HandleBefore (injected with go test -overlay): after the proxy has been rebuilt
// request ids start again from 1; a plain request must not inherit the ClientID an earlier request with the same id left
// in the cache.

import (
	"encoding/base64"
	"fmt"
	"net"
	"net/http"
	"net/http/httptest"
	"testing"

	"github.com/AdguardTeam/AdGuardHome/internal/filtering"
	"github.com/AdguardTeam/dnsproxy/proxy"
	"github.com/miekg/dns"
)

func TestGovcReplayStaleClientID(t *testing.T) {
	s := createTestServer(t, &filtering.Config{
		BlockingMode: filtering.BlockingModeDefault, ProtectionEnabled: true,
	}, ServerConfig{
		UDPListenAddrs:         []*net.UDPAddr{{IP: net.IP{127, 0, 0, 1}}},
		TCPListenAddrs:         []*net.TCPAddr{{IP: net.IP{127, 0, 0, 1}}},
		TLSConf:                &TLSConfig{},
		TLSAllowUnencryptedDoH: true,
		Config: Config{
			UpstreamMode:     UpstreamModeLoadBalance,
			EDNSClientSubnet: &EDNSClientSubnet{Enabled: false},
			ClientsContainer: EmptyClientsContainer{},
		},
		ServePlainDNS: true,
	})

	ql := &testQueryLog{}
	s.queryLog = ql

	startDeferStop(t, s)

	// the first request of the first proxy: DNS-over-HTTPS with ClientID "alice"
	packed, err := createTestMessage("host.example.org.").Pack()
	if err != nil {
		t.Fatal(err)
	}
	r := httptest.NewRequest(http.MethodGet, "/dns-query/alice?dns="+base64.RawURLEncoding.EncodeToString(packed), nil)
	w := httptest.NewRecorder()
	s.handleDoH(w, r)
	if w.Code != http.StatusOK || ql.lastParams == nil {
		t.Skipf("DoH request not served: %d", w.Code)
	}
	fmt.Printf("DoH request /dns-query/alice: logged with ClientID %q\n", ql.lastParams.ClientID)
	ql.lastParams = nil

	// any reconfiguration (POST /control/dns_config, TLS settings, certificate reload) rebuilds the proxy
	if err = s.Reconfigure(nil); err != nil {
		t.Fatal(err)
	}

	// the first request of the second proxy: plain UDP
	addr := s.dnsProxy.Addr(proxy.ProtoUDP).String()
	if _, err = dns.Exchange(createTestMessage("host.example.org."), addr); err != nil {
		t.Fatal(err)
	}
	if ql.lastParams == nil {
		t.Skip("plain request not logged")
	}
	fmt.Printf("plain UDP request after Reconfigure: logged with ClientID %q\n", ql.lastParams.ClientID)
	if ql.lastParams.ClientID != "" {
		fmt.Printf("GOVC-REPRODUCED a plain request is attributed to ClientID %q left in the request-id cache by a request served before the reconfiguration\n", ql.lastParams.ClientID)
	}
}
