package dnsforward

// Replay driver for C01 obligations on the blocking-mode mapping (injected with go test -overlay).  It enumerates the
// five blocking modes and the query types and prints an input on which the REAL message constructors contradict the
// mapping stated in the contracts.

import (
	"fmt"
	"net"
	"net/netip"
	"testing"

	"github.com/AdguardTeam/AdGuardHome/internal/filtering"
	"github.com/miekg/dns"
)

func TestGovcReplayBlockingModes(t *testing.T) {
	s := createTestServer(t, &filtering.Config{BlockingMode: filtering.BlockingModeDefault}, ServerConfig{
		UDPListenAddrs: []*net.UDPAddr{{}},
		TCPListenAddrs: []*net.TCPAddr{{}},
		TLSConf:        &TLSConfig{},
		Config: Config{
			UpstreamMode:     UpstreamModeLoadBalance,
			EDNSClientSubnet: &EDNSClientSubnet{Enabled: false},
			ClientsContainer: EmptyClientsContainer{},
		},
		ServePlainDNS: true,
	})
	v4, v6 := netip.MustParseAddr("192.0.2.1"), netip.MustParseAddr("2001:db8::1")
	found := 0
	report := func(format string, args ...any) {
		found++
		if found <= 5 {
			fmt.Printf("GOVC-REPRODUCED "+format+"\n", args...)
		}
	}
	modes := []filtering.BlockingMode{filtering.BlockingModeDefault, filtering.BlockingModeNullIP, filtering.BlockingModeCustomIP, filtering.BlockingModeNXDOMAIN, filtering.BlockingModeREFUSED}
	for _, m := range modes {
		s.dnsFilter.SetBlockingMode(m, v4, v6)
		for _, qt := range []uint16{dns.TypeA, dns.TypeAAAA, dns.TypeHTTPS, dns.TypeTXT} {
			req := (&dns.Msg{}).SetQuestion("blocked.example.", qt)
			var resp *dns.Msg
			if qt == dns.TypeTXT {
				resp = s.genForBlockingMode(req, nil)
			} else {
				resp = s.genForBlockingMode(req, nil)
			}
			if resp == nil {
				report("mode %s, %s: no response is built (the query would go upstream)", m, dns.Type(qt))

				continue
			}
			if len(resp.Question) != 1 || resp.Question[0] != req.Question[0] || !resp.Response {
				report("mode %s, %s: reply is not a response to the same question", m, dns.Type(qt))
			}
			switch m {
			case filtering.BlockingModeNXDOMAIN:
				if resp.Rcode != dns.RcodeNameError || len(resp.Answer) != 0 {
					report("mode nxdomain, %s: rcode %d with %d answers", dns.Type(qt), resp.Rcode, len(resp.Answer))
				}
			case filtering.BlockingModeREFUSED:
				if resp.Rcode != dns.RcodeRefused || len(resp.Answer) != 0 {
					report("mode refused, %s: rcode %d with %d answers", dns.Type(qt), resp.Rcode, len(resp.Answer))
				}
			case filtering.BlockingModeNullIP, filtering.BlockingModeDefault, filtering.BlockingModeCustomIP:
				want4, want6 := netip.IPv4Unspecified(), netip.IPv6Unspecified()
				if m == filtering.BlockingModeCustomIP {
					want4, want6 = v4, v6
				}
				switch qt {
				case dns.TypeA:
					a, ok := (dns.RR)(nil), false
					if len(resp.Answer) == 1 {
						a, ok = resp.Answer[0], true
					}
					if rr, isA := a.(*dns.A); !ok || !isA || !rr.A.Equal(want4.AsSlice()) {
						report("mode %s, A: answer %v, want one A record %s", m, resp.Answer, want4)
					}
				case dns.TypeAAAA:
					a, ok := (dns.RR)(nil), false
					if len(resp.Answer) == 1 {
						a, ok = resp.Answer[0], true
					}
					if rr, isA := a.(*dns.AAAA); !ok || !isA || !rr.AAAA.Equal(want6.AsSlice()) {
						report("mode %s, AAAA: answer %v, want one AAAA record %s", m, resp.Answer, want6)
					}
				default:
					if len(resp.Answer) != 0 {
						report("mode %s, %s: %d answers, want an empty local answer", m, dns.Type(qt), len(resp.Answer))
					}
				}
			}
		}
	}
	if found == 0 {
		fmt.Println("GOVC-NOT-REPRODUCED no contradicting input in the searched family")
	}
}
