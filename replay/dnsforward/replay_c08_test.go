package dnsforward

// Replay driver for the C08 obligations of processQueryLogsAndStats (injected with go test -overlay).

import (
	"fmt"
	"net"
	"net/netip"
	"testing"
	"time"

	"github.com/AdguardTeam/AdGuardHome/internal/aghnet"
	"github.com/AdguardTeam/AdGuardHome/internal/filtering"
	"github.com/AdguardTeam/AdGuardHome/internal/querylog"
	"github.com/AdguardTeam/AdGuardHome/internal/stats"
	"github.com/AdguardTeam/dnsproxy/proxy"
	"github.com/AdguardTeam/golibs/logutil/slogutil"
	"github.com/miekg/dns"
)

type replayQL struct {
	querylog.QueryLog
	ignoredIDs map[string]bool
	added      []*querylog.AddParams
	hosts      []string
}

func (l *replayQL) Add(p *querylog.AddParams) { l.added = append(l.added, p) }
func (l *replayQL) ShouldLog(host string, _, _ uint16, ids []string) bool {
	l.hosts = append(l.hosts, host)
	for _, id := range ids {
		if l.ignoredIDs[id] {
			return false
		}
	}

	return true
}

type replayST struct {
	stats.Interface
	ignoredIDs map[string]bool
	entries    []*stats.Entry
}

func (s *replayST) Update(e *stats.Entry) { s.entries = append(s.entries, e) }
func (s *replayST) ShouldCount(_ string, _, _ uint16, ids []string) bool {
	for _, id := range ids {
		if s.ignoredIDs[id] {
			return false
		}
	}

	return true
}

func TestGovcReplayQueryLogsAndStats(t *testing.T) {
	found := 0
	report := func(format string, args ...any) {
		found++
		if found <= 5 {
			fmt.Printf("GOVC-REPRODUCED "+format+"\n", args...)
		}
	}
	for _, anon := range []bool{false, true} {
		for _, addr := range []string{"192.0.2.77", "2001:db8::1234:5678"} {
			ip := netip.MustParseAddr(addr)
			// the client is marked "ignore" and is identified by its address
			ql := &replayQL{ignoredIDs: map[string]bool{addr: true}}
			st := &replayST{ignoredIDs: map[string]bool{addr: true}}
			var mut aghnet.IPMutFunc
			if anon {
				mut = querylog.AnonymizeIP
			}
			srv := &Server{baseLogger: slogutil.NewDiscardLogger(), queryLog: ql, stats: st, anonymizer: aghnet.NewIPMut(mut)}
			req := &dns.Msg{Question: []dns.Question{{Name: "Example.ORG.", Qtype: dns.TypeA, Qclass: dns.ClassINET}}}
			pctx := &proxy.DNSContext{Proto: proxy.ProtoUDP, Req: req, Res: &dns.Msg{}, Addr: netip.AddrPortFrom(ip, 5353)}
			dctx := &dnsContext{proxyCtx: pctx, startTime: time.Now(), result: &filtering.Result{}}
			srv.processQueryLogsAndStats(dctx)
			if len(ql.added) != 0 {
				report("anonymisation %t: a query from the ignored client %s was added to the query log (the ignore decision saw another address)", anon, addr)
			}
			if len(st.entries) != 0 {
				report("anonymisation %t: a query from the ignored client %s was counted in the statistics", anon, addr)
			}
			// a client that is not ignored: what is stored must be anonymised when anonymisation is on
			ql2, st2 := &replayQL{}, &replayST{}
			srv2 := &Server{baseLogger: slogutil.NewDiscardLogger(), queryLog: ql2, stats: st2, anonymizer: aghnet.NewIPMut(mut)}
			pctx2 := &proxy.DNSContext{Proto: proxy.ProtoUDP, Req: req, Res: &dns.Msg{}, Addr: netip.AddrPortFrom(ip, 5353)}
			srv2.processQueryLogsAndStats(&dnsContext{proxyCtx: pctx2, startTime: time.Now(), result: &filtering.Result{}})
			want := net.IP(ip.AsSlice())
			if anon {
				want = net.IP(ip.AsSlice())
				querylog.AnonymizeIP(want)
			}
			if len(ql2.added) != 1 || !ql2.added[0].ClientIP.Equal(want) {
				report("anonymisation %t: the query log got client address %v, want %v", anon, ql2.added, want)
			}
			if len(st2.entries) != 1 || st2.entries[0].Client != want.String() {
				report("anonymisation %t: the statistics got a client other than %v", anon, want)
			}
			for _, h := range ql2.hosts {
				if h != "example.org" {
					report("the ignore list was asked about %q instead of the normalised name", h)
				}
			}
		}
	}
	if found == 0 {
		fmt.Println("GOVC-NOT-REPRODUCED no contradicting input in the searched family")
	}
}
