package schedule

// Replay driver for govc counter-models of (*Weekly).Contains (injected with go test -overlay).
//
// The counter-model is abstract: the zone offset function off(loc, T) is uninterpreted in the proof.  The driver
// therefore realises the model's shape (an instant whose zone offset differs from the offset at local midnight)
// with the zones of the host's tz database, and evaluates the contract's postcondition
//   ok == (days[weekday].start <= wallclock(t) < days[weekday].end)
// on the real code.

import (
	"encoding/json"
	"fmt"
	"os"
	"strconv"
	"testing"
	"time"
)

type govcReplay struct {
	Obligation string            `json:"obligation"`
	Inputs     map[string]string `json:"model_inputs"`
}

func govcInt(r *govcReplay, key string, def int64) int64 {
	v, ok := r.Inputs[key]
	if !ok {
		return def
	}
	neg := false
	if len(v) > 3 && v[:3] == "(- " {
		neg = true
		v = v[3 : len(v)-1]
	}
	n, err := strconv.ParseInt(v, 10, 64)
	if err != nil {
		return def
	}
	if neg {
		return -n
	}
	return n
}

func TestGovcReplayContains(t *testing.T) {
	p := os.Getenv("GOVC_REPLAY")
	if p == "" {
		t.Skip("GOVC_REPLAY not set")
	}
	data, err := os.ReadFile(p)
	if err != nil {
		t.Fatal(err)
	}
	r := &govcReplay{}
	_ = json.Unmarshal(data, r)

	// candidate ranges: those of the model (if they are valid day ranges) and two fixed probes
	type rng struct{ s, e time.Duration }
	cands := []rng{{9*time.Hour + 30*time.Minute, 10 * time.Hour}, {0, 24 * time.Hour}, {0, 0}, {2 * time.Hour, 3 * time.Hour}}
	for d := 0; d < 7; d++ {
		s := govcInt(r, fmt.Sprintf("w.days[%d].start", d), -1)
		e := govcInt(r, fmt.Sprintf("w.days[%d].end", d), -1)
		if s >= 0 && e >= s && e <= int64(24*time.Hour) {
			cands = append([]rng{{time.Duration(s), time.Duration(e)}}, cands...)
		}
	}
	zones := []string{"UTC", "America/New_York", "Europe/London", "Australia/Lord_Howe", "Asia/Kolkata", "America/Sao_Paulo", "Pacific/Apia"}
	for _, zn := range zones {
		loc, err := time.LoadLocation(zn)
		if err != nil {
			continue
		}
		for _, c := range cands {
			w := &Weekly{location: loc}
			for d := range w.days {
				w.days[d] = dayRange{start: c.s, end: c.e}
			}
			start := time.Date(2024, 1, 1, 0, 0, 0, 0, time.UTC)
			for m := 0; m < 366*24*4; m++ { // every 15 minutes of 2024
				ts := start.Add(time.Duration(m) * 15 * time.Minute)
				lt := ts.In(loc)
				h, mi, s := lt.Clock()
				clock := time.Duration(h)*time.Hour + time.Duration(mi)*time.Minute + time.Duration(s)*time.Second + time.Duration(lt.Nanosecond())
				want := c.s <= clock && clock < c.e
				got := w.Contains(ts)
				if got != want {
					fmt.Printf("GOVC-REPRODUCED: zone %s instant %s (local %s) range [%s,%s): Contains=%v, wall-clock specification=%v\n",
						zn, ts.Format(time.RFC3339), lt.Format("2006-01-02 15:04:05 MST"), c.s, c.e, got, want)
					return
				}
			}
		}
	}
	fmt.Println("GOVC-NOT-REPRODUCED")
}
