package querylog

// Replay driver for the C07 obligation on seekRecord (injected with go test -overlay): a cursor newer than every record
// on file positions the reader on the newest record of the file - which must be returned, not skipped.

import (
	"fmt"
	"testing"
	"time"

	"github.com/AdguardTeam/golibs/testutil"
)

func TestGovcReplaySeekRecord(t *testing.T) {
	r := newTestQLogReader(t, 1, 5)
	ctx := testutil.ContextWithTimeout(t, testTimeout)

	// the newest record on file
	if err := r.SeekStart(); err != nil {
		t.Fatal(err)
	}
	newest, err := r.ReadNext()
	if err != nil {
		t.Fatal(err)
	}
	logger := r.logger
	newestTS := readQLogTimestamp(ctx, logger, newest)

	// a cursor later than everything on file: what a page boundary on an in-memory entry produces
	cursor := time.Unix(0, newestTS).Add(time.Hour)
	err = r.seekRecord(ctx, cursor)
	if err != nil {
		fmt.Printf("seekRecord(newest+1h): %v\n", err)

		return
	}
	line, err := r.ReadNext()
	if err != nil {
		t.Fatal(err)
	}
	got := readQLogTimestamp(ctx, logger, line)
	fmt.Printf("cursor after the newest record (%d): first record returned has timestamp %d\n", newestTS, got)
	if got != newestTS {
		fmt.Printf("GOVC-REPRODUCED older_than newer than every record on file: the newest record on file (%d) is skipped, the page starts at %d\n", newestTS, got)
	}
}
