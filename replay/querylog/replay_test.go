package querylog

// Replay drivers for govc counter-models (injected with go test -overlay; not part of the repository).

import (
	"context"
	"encoding/json"
	"fmt"
	"net"
	"os"
	"strconv"
	"testing"

	"github.com/AdguardTeam/golibs/logutil/slogutil"
	"github.com/AdguardTeam/golibs/timeutil"
)

type govcReplay struct {
	Obligation string            `json:"obligation"`
	Inputs     map[string]string `json:"model_inputs"`
}

func govcLoad(t *testing.T) *govcReplay {
	p := os.Getenv("GOVC_REPLAY")
	if p == "" {
		t.Skip("GOVC_REPLAY not set")
	}
	data, err := os.ReadFile(p)
	if err != nil {
		t.Fatal(err)
	}
	r := &govcReplay{}
	if err := json.Unmarshal(data, r); err != nil {
		t.Fatal(err)
	}
	return r
}

func govcInt(r *govcReplay, key string, def int) int {
	v, ok := r.Inputs[key]
	if !ok {
		return def
	}
	if len(v) > 3 && v[:3] == "(- " {
		n, _ := strconv.Atoi(v[3 : len(v)-1])
		return -n
	}
	n, err := strconv.Atoi(v)
	if err != nil {
		return def
	}
	return n
}

// TestGovcReplayAnonymizeIP rebuilds the address from the model and checks the masking specification of the property:
// IPv4 (4-byte or 4-in-6): last 2 bytes zero, rest unchanged; other 16-byte: last 10 bytes zero, rest unchanged; other lengths unchanged.
func TestGovcReplayAnonymizeIP(t *testing.T) {
	r := govcLoad(t)
	n := govcInt(r, "ip.len", 0)
	if n < 0 || n > 64 {
		fmt.Println("GOVC-NOT-REPRODUCED (model length out of replayable range)")
		return
	}
	ip := make(net.IP, n)
	for i := 0; i < n; i++ {
		ip[i] = byte(govcInt(r, fmt.Sprintf("ip[%d]", i), 0))
	}
	orig := append(net.IP(nil), ip...)
	is4in6 := n == 16 && orig.To4() != nil
	AnonymizeIP(ip)
	bad := ""
	for i := 0; i < n; i++ {
		want := orig[i]
		switch {
		case n == 4 && i >= 2, is4in6 && i >= 14, n == 16 && !is4in6 && i >= 6:
			want = 0
		}
		if ip[i] != want {
			bad = fmt.Sprintf("byte %d is %d, want %d (input %v, output %v)", i, ip[i], want, []byte(orig), []byte(ip))
			break
		}
	}
	if bad != "" {
		fmt.Println("GOVC-REPRODUCED:", bad)
		return
	}
	fmt.Println("GOVC-NOT-REPRODUCED")
}

// TestGovcReplaySearch replays a counter-model of (*queryLog).search: the model's limit/offset are passed to the real
// search on a small real query log; the no-crash part of the property is violated if search panics.
func TestGovcReplaySearch(t *testing.T) {
	r := govcLoad(t)
	limit := govcInt(r, "params.limit", 0)
	offset := govcInt(r, "params.offset", 0)
	l, err := newQueryLog(Config{
		Logger:      slogutil.NewDiscardLogger(),
		Enabled:     true,
		RotationIvl: timeutil.Day,
		MemSize:     100,
		BaseDir:     t.TempDir(),
	})
	if err != nil {
		t.Fatal(err)
	}
	p := newSearchParams()
	p.limit, p.offset = limit, offset
	func() {
		defer func() {
			if rec := recover(); rec != nil {
				fmt.Printf("GOVC-REPRODUCED: search(limit=%d, offset=%d) panics: %v\n", limit, offset, rec)
			}
		}()
		l.confMu.RLock()
		defer l.confMu.RUnlock()
		entries, _ := l.search(context.Background(), p)
		if limit >= 0 && offset >= 0 && len(entries) > limit {
			fmt.Printf("GOVC-REPRODUCED: search(limit=%d, offset=%d) returned %d entries\n", limit, offset, len(entries))
			return
		}
		fmt.Println("GOVC-NOT-REPRODUCED")
	}()
}
