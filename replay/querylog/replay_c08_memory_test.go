package querylog

// Replay driver for the C08 obligation on the memory scan of the query-log search (injected with go test -overlay): an
// entry whose name is on the ignore list now is not returned, whether it sits in a file or still in memory.

import (
	"fmt"
	"net"
	"testing"

	"github.com/AdguardTeam/AdGuardHome/internal/aghnet"
	"github.com/AdguardTeam/golibs/logutil/slogutil"
	"github.com/AdguardTeam/golibs/testutil"
	"github.com/AdguardTeam/golibs/timeutil"
)

func TestGovcReplayMemoryIgnored(t *testing.T) {
	l, err := newQueryLog(Config{
		Logger:      slogutil.NewDiscardLogger(),
		Enabled:     true,
		FileEnabled: true,
		RotationIvl: timeutil.Day,
		MemSize:     100,
		BaseDir:     t.TempDir(),
	})
	if err != nil {
		t.Fatal(err)
	}
	ctx := testutil.ContextWithTimeout(t, testTimeout)

	addEntry(l, "secret.example", net.IPv4(1, 1, 1, 1), net.IPv4(2, 2, 2, 1))
	if err = l.flushLogBuffer(ctx); err != nil {
		t.Fatal(err)
	}
	addEntry(l, "secret.example", net.IPv4(1, 1, 1, 2), net.IPv4(2, 2, 2, 2))
	addEntry(l, "other.example", net.IPv4(1, 1, 1, 3), net.IPv4(2, 2, 2, 3))

	// the name is put on the ignore list afterwards (PUT /control/querylog/config/update does exactly this)
	engine, err := aghnet.NewIgnoreEngine([]string{"secret.example"})
	if err != nil {
		t.Fatal(err)
	}
	conf := *l.conf
	conf.Ignored = engine
	l.conf = &conf

	params := newSearchParams()
	entries, _ := l.search(ctx, params)
	inMem, onFile := 0, 0
	for _, e := range entries {
		if e.QHost == "secret.example" {
			if e.IP.Equal(net.IPv4(2, 2, 2, 2)) {
				inMem++
			} else {
				onFile++
			}
		}
	}
	fmt.Printf("search after secret.example was put on the ignore list: %d entries, of the ignored name: %d from memory, %d from the file\n", len(entries), inMem, onFile)
	if inMem+onFile > 0 {
		fmt.Printf("GOVC-REPRODUCED the query-log API returns %d entr(ies) of a name that is ignored now (memory: %d, file: %d)\n", inMem+onFile, inMem, onFile)
	}
}
