package home

// Replay driver for the C11 install-handler obligation (injected with go test -overlay): a configure request whose
// module start fails must not leave an account behind while the installation endpoints are open again.

import (
	"bytes"
	"encoding/json"
	"fmt"
	"net"
	"net/http"
	"net/http/httptest"
	"net/netip"
	"path/filepath"
	"testing"

	"github.com/AdguardTeam/golibs/logutil/slogutil"
)

func freePort(t *testing.T, network string) uint16 {
	t.Helper()
	if network == "udp" {
		c, err := net.ListenPacket("udp", "127.0.0.1:0")
		if err != nil {
			t.Fatal(err)
		}
		defer c.Close()

		return uint16(c.LocalAddr().(*net.UDPAddr).Port)
	}
	l, err := net.Listen("tcp", "127.0.0.1:0")
	if err != nil {
		t.Fatal(err)
	}
	defer l.Close()

	return uint16(l.Addr().(*net.TCPAddr).Port)
}

func TestGovcReplayInstallConfigure(t *testing.T) {
	dir := t.TempDir()
	oldCtx, oldConf := globalContext, config
	t.Cleanup(func() { globalContext, config = oldCtx, oldConf })

	globalContext.workDir = dir
	globalContext.firstRun = true
	globalContext.auth = &Auth{sessions: map[string]*session{}, trustedProxies: nil}
	// module start fails: the statistics directory of the configuration is not a directory
	config.Stats.DirPath = filepath.Join(dir, "no-such-dir")

	web := &webAPI{conf: &webConfig{firstRun: true}, logger: slogutil.NewDiscardLogger(), baseLogger: slogutil.NewDiscardLogger()}

	lo := netip.MustParseAddr("127.0.0.1")
	webPort := freePort(t, "tcp")
	config.HTTPConfig.Address = netip.AddrPortFrom(lo, webPort)
	body, _ := json.Marshal(map[string]any{
		"web":      map[string]any{"ip": "127.0.0.1", "port": webPort},
		"dns":      map[string]any{"ip": "127.0.0.1", "port": freePort(t, "udp")},
		"username": "admin",
		"password": "correct horse battery",
	})
	before := len(globalContext.auth.usersList())
	r := httptest.NewRequest(http.MethodPost, "/control/install/configure", bytes.NewReader(body))
	r.Header.Set("Content-Type", "application/json")
	w := httptest.NewRecorder()
	web.handleInstallConfigure(w, r)

	after := len(globalContext.auth.usersList())
	fmt.Printf("install configure: status %d, firstRun=%v, accounts before=%d after=%d\n", w.Code, globalContext.firstRun, before, after)
	if w.Code == http.StatusOK {
		t.Skip("module start did not fail in this environment")
	}
	if globalContext.firstRun && after != before {
		fmt.Printf("GOVC-REPRODUCED failed installation (status %d) reopened the installation endpoints and left %d account(s) behind\n", w.Code, after-before)
	}
}
