package home

// Replay driver for the C16 obligation on setPrivateFieldsAndCompare (injected with go test -overlay): the settings the
// frontend does not send - strict server-name checking among them - must survive a change of the TLS settings.

import (
	"fmt"
	"testing"
)

func TestGovcReplayPrivateTLSSettings(t *testing.T) {
	cur := &tlsConfigSettings{
		Enabled:             true,
		ServerName:          "example.com",
		StrictSNICheck:      true,
		AllowUnencryptedDoH: true,
		PortDNSCrypt:        5443,
		DNSCryptConfigFile:  "/etc/dnscrypt.yml",
	}
	// what POST /control/tls/configure decodes: the JSON form has no field for the private settings
	fromFrontend := &tlsConfigSettings{Enabled: true, ServerName: "dns.example.com"}
	cur.setPrivateFieldsAndCompare(fromFrontend)
	fmt.Printf("after a TLS settings change: strict_sni_check=%v allow_unencrypted_doh=%v port_dnscrypt=%d dnscrypt_config_file=%q\n",
		fromFrontend.StrictSNICheck, fromFrontend.AllowUnencryptedDoH, fromFrontend.PortDNSCrypt, fromFrontend.DNSCryptConfigFile)
	if !fromFrontend.StrictSNICheck {
		fmt.Println("GOVC-REPRODUCED strict_sni_check: true is silently reset to false by a change of the TLS settings (names outside the configured domain are then accepted)")
	}
}
