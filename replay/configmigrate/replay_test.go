package configmigrate

// Replay driver for govc counter-models of the migration steps (injected with go test -overlay).
//
// The counter-model of a failed safety obligation in migrateToN is an abstract YAML tree (maps of interface values).  The
// driver realises its shape: for the step N named in the replay file it feeds Migrate with documents of schema N-1 in
// which one section is null / of unexpected type / empty, and reports the first document that makes the real code panic.

import (
	"encoding/json"
	"fmt"
	"os"
	"regexp"
	"strconv"
	"testing"
)

func TestGovcReplayMigrate(t *testing.T) {
	p := os.Getenv("GOVC_REPLAY")
	if p == "" {
		t.Skip("GOVC_REPLAY not set")
	}
	data, err := os.ReadFile(p)
	if err != nil {
		t.Fatal(err)
	}
	var r struct {
		Function   string `json:"function"`
		Obligation string `json:"obligation"`
	}
	_ = json.Unmarshal(data, &r)
	m := regexp.MustCompile(`migrateTo(\d+)`).FindStringSubmatch(r.Function)
	if m == nil {
		fmt.Println("GOVC-NOT-REPRODUCED (not a migration step)")
		return
	}
	n, _ := strconv.Atoi(m[1])
	keys := []string{"dns", "http", "statistics", "querylog", "dhcp", "dhcpv4", "filtering", "tls", "clients", "os", "log", "users", "filters", "whitelist_filters", "blocked_services"}
	vals := []string{"null", "{}", "[]", "1", "\"x\"", "{persistent: null}", "{persistent: [null]}", "[null]", "[{}]"}
	dir := t.TempDir()
	for _, k := range keys {
		for _, v := range vals {
			body := fmt.Sprintf("schema_version: %d\n%s: %s\n", n-1, k, v)
			var rec any
			func() {
				defer func() { rec = recover() }()
				_, _, _ = New(&Config{WorkingDir: dir, DataDir: dir}).Migrate([]byte(body), uint(n))
			}()
			if rec != nil {
				fmt.Printf("GOVC-REPRODUCED: Migrate(%q, %d) panics: %v\n", body, n, rec)
				return
			}
		}
	}
	fmt.Println("GOVC-NOT-REPRODUCED")
}
