package configmigrate

import (
	"fmt"
	"testing"
)

func TestGovcReplayNullDocument(t *testing.T) {
	for _, doc := range []string{"~", "null", "---\n", "--- ~\n", ""} {
		func() {
			defer func() {
				if r := recover(); r != nil {
					fmt.Printf("GOVC-REPRODUCED Migrate(%q) panics: %v\n", doc, r)
				}
			}()
			m := New(&Config{WorkingDir: t.TempDir(), DataDir: t.TempDir()})
			_, up, err := m.Migrate([]byte(doc), LastSchemaVersion)
			fmt.Printf("Migrate(%q): upgraded=%v err=%v\n", doc, up, err)
		}()
	}
}
