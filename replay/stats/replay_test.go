package stats

// Replay driver for C09 unit arithmetic obligations (injected with go test -overlay).

import (
	"fmt"
	"testing"
)

func TestGovcReplayUnit(t *testing.T) {
	found := 0
	report := func(format string, args ...any) {
		found++
		if found <= 5 {
			fmt.Printf("GOVC-REPRODUCED "+format+"\n", args...)
		}
	}
	for res := RNotFiltered; res < resultLast; res++ {
		u := newUnit(7)
		before := append([]uint64{}, u.nResult...)
		e := &Entry{Client: "c", Domain: "d.example", Result: res}
		if err := e.validate(); err != nil {
			report("validate rejects result %d: %v", res, err)

			continue
		}
		u.add(e)
		if u.nTotal != 1 {
			report("add(result %d): nTotal = %d after one entry", res, u.nTotal)
		}
		for r := range u.nResult {
			want := before[r]
			if Result(r) == res {
				want++
			}
			if u.nResult[r] != want {
				report("add(result %d): category %d = %d, want %d", res, r, u.nResult[r], want)
			}
		}
		udb := u.serialize()
		v := newUnit(7)
		v.deserialize(udb)
		if v.nTotal != u.nTotal || len(v.nResult) != len(u.nResult) {
			report("serialize/deserialize changes the total or the number of categories (result %d)", res)
		}
		for r := range u.nResult {
			if r < len(v.nResult) && v.nResult[r] != u.nResult[r] {
				report("serialize/deserialize changes category %d (result %d)", r, res)
			}
		}
	}
	for _, bad := range []Result{0, resultLast, resultLast + 1} {
		if err := (&Entry{Client: "c", Domain: "d", Result: bad}).validate(); err == nil {
			report("validate accepts result code %d", bad)
		}
	}
	// totals over a window: 3 hourly units and 30 days of units
	for _, n := range []int{3, 24 * 30} {
		units := make([]*unitDB, n)
		var want uint64
		for i := range units {
			units[i] = &unitDB{NResult: make([]uint64, resultLast), NTotal: uint64(i + 1)}
			units[i].NResult[RFiltered] = 1
			want += uint64(i + 1)
		}
		s := &StatsCtx{shouldCountClient: func([]string) bool { return true }}
		resp := s.dataFromUnits(units, uint32(n+100))
		if resp.NumDNSQueries != want || resp.NumBlockedFiltering != uint64(n) {
			report("dataFromUnits over %d units: total %d (want %d), blocked %d (want %d)", n, resp.NumDNSQueries, want, resp.NumBlockedFiltering, n)
		}
	}
	if found == 0 {
		fmt.Println("GOVC-NOT-REPRODUCED no contradicting input in the searched family")
	}
}
