package client

// Replay driver for the lock-discipline finding on (*Storage).ApplyClientFiltering: the check's failed obligation says the
// index maps are read without s.mu.  The driver runs the real reader concurrently with the real writers under the race
// detector (go test -race): a reported race reproduces the finding.

import (
	"context"
	"fmt"
	"net"
	"net/netip"
	"sync"
	"testing"

	"github.com/AdguardTeam/AdGuardHome/internal/dhcpsvc"

	"github.com/AdguardTeam/AdGuardHome/internal/filtering"
	"github.com/AdguardTeam/golibs/logutil/slogutil"
)

type govcNoDHCP struct{}

func (govcNoDHCP) Leases() (leases []*dhcpsvc.Lease)           { return nil }
func (govcNoDHCP) HostByIP(ip netip.Addr) (host string)        { return "" }
func (govcNoDHCP) MACByIP(ip netip.Addr) (mac net.HardwareAddr) { return nil }

func TestGovcReplayApplyClientFiltering(t *testing.T) {
	ctx := context.Background()
	s, err := NewStorage(ctx, &StorageConfig{Logger: slogutil.NewDiscardLogger(), DHCP: govcNoDHCP{}})
	if err != nil {
		t.Fatal(err)
	}
	var wg sync.WaitGroup
	wg.Add(2)
	go func() {
		defer wg.Done()
		for i := 0; i < 2000; i++ {
			p := &Persistent{Name: fmt.Sprintf("c%d", i), UID: MustNewUID(), IPs: []netip.Addr{netip.AddrFrom4([4]byte{10, 0, byte(i >> 8), byte(i)})}}
			_ = s.Add(ctx, p)
			_ = s.RemoveByName(ctx, p.Name)
		}
	}()
	go func() {
		defer wg.Done()
		setts := &filtering.Settings{}
		for i := 0; i < 20000; i++ {
			s.ApplyClientFiltering("", netip.AddrFrom4([4]byte{10, 0, 0, byte(i)}), setts)
		}
	}()
	wg.Wait()
	fmt.Println("GOVC-RACE-RUN-COMPLETE (a race report above reproduces the finding)")
}
