package main

import (
	"fmt"
	"go/types"
)

// Loc is a symbolic memory location.
type Loc struct {
	Kind string // "obj" (struct or array object at ref Base), "field" (scalar field of object Base in heap Heap),
	// "elem" (scalar element Idx of array object Base in heap Heap), "cell" (scalar cell Base in heap Heap), "global" (state var Heap)
	Base Term
	Idx  Term
	Heap string
	Typ  types.Type // type of the value stored at the location
}

func (te *TypeEnv) isAggregate(t types.Type) bool {
	if te.isStructVal(t) {
		return true
	}
	_, ok := isArray(t)
	return ok
}

// fieldHeap returns the heap name of field i of struct type t.
func (te *TypeEnv) fieldHeap(t types.Type, i int) string {
	st := t.Underlying().(*types.Struct)
	n := "H_" + typeName(t) + "." + fieldIdent(st, i)
	te.noteRefKind(n, st.Field(i).Type())
	return n
}

func (te *TypeEnv) elemHeap(e types.Type) string {
	// one element heap per Go element type: slices of different element types never share memory (no unsafe in scope)
	e = types.Unalias(e)
	if b, ok := e.(*types.Basic); ok && b.Kind() < types.UntypedBool {
		e = types.Typ[b.Kind()] // byte and uint8 (rune and int32) are one type
	}
	n := "A_" + typeName(e)
	te.noteRefKind(n, e)
	return n
}
func (te *TypeEnv) cellHeap(t types.Type) string {
	n := "C_" + mangle(te.SortOf(t))
	te.noteRefKind(n, t)
	return n
}

// noteRefKind records that heap n may hold references (pointers, maps) or slices: such heaps carry the allocation-time
// bound "everything stored here was allocated no later than the moment this heap value came into being".
func (te *TypeEnv) noteRefKind(n string, t types.Type) {
	if te.heapRefKind == nil {
		te.heapRefKind = map[string]string{}
	}
	switch types.Unalias(t).Underlying().(type) {
	case *types.Pointer, *types.Map:
		te.heapRefKind[n] = "ref"
	case *types.Slice:
		te.heapRefKind[n] = "slice"
	}
}

// refBound returns the allocation-time bound for a freshly introduced heap value t of heap n (or "true").
func (te *TypeEnv) refBound(n string, t Term, clk Term) Term {
	k := te.heapRefKind[n]
	if k == "" {
		return tTrue
	}
	at := func(x string) string {
		if k == "slice" {
			return "(atime (sarr " + x + "))"
		}
		return "(atime " + x + ")"
	}
	want := SInt
	if k == "slice" {
		want = SSlice
	}
	switch t.Sort {
	case want:
		return Term{fmt.Sprintf("(<= %s %s)", at(t.S), clk.S), SBool}
	case arraySort(SInt, want):
		sel := fmt.Sprintf("(select %s x)", t.S)
		return Term{fmt.Sprintf("(forall ((x Int)) (! (<= %s %s) :pattern (%s)))", at(sel), clk.S, sel), SBool}
	case arraySort(SInt, arraySort(SInt, want)):
		sel := fmt.Sprintf("(select (select %s a) x)", t.S)
		return Term{fmt.Sprintf("(forall ((a Int) (x Int)) (! (<= %s %s) :pattern (%s)))", at(sel), clk.S, sel), SBool}
	}
	return tTrue
}

// subObj returns the address of the sub-object stored in field i of the object at ref.
func (te *TypeEnv) subObj(t types.Type, i int, ref Term) Term {
	st := t.Underlying().(*types.Struct)
	fn := "sub_" + typeName(t) + "." + fieldIdent(st, i)
	fn = smtName(fn)
	if !te.pre.Has("fn:" + fn) {
		te.pre.Add("fn:"+fn, fmt.Sprintf("(declare-fun %s (Int) Int)", fn))
		inv := smtName("inv_" + fn)
		te.pre.Add("fn:"+inv, fmt.Sprintf("(declare-fun %s (Int) Int)", inv))
		k := te.subTag()
		te.pre.Add("ax:"+fn, fmt.Sprintf("(assert (forall ((p Int)) (! (and (= (%s (%s p)) p) (= (subtag (%s p)) %d) (not (= (%s p) 0)) (= (atime (%s p)) (atime p))) :pattern ((%s p)))))", inv, fn, fn, k, fn, fn, fn))
	}
	return Term{app(fn, ref.S), SInt}
}

var subTagCounter int

func (te *TypeEnv) subTag() int {
	te.pre.Add("fn:subtag", "(declare-fun subtag (Int) Int)")
	subTagCounter++
	return subTagCounter
}

// elemObj returns the address of the aggregate element idx of array object ref.
func (te *TypeEnv) elemObj(e types.Type, ref, idx Term) Term {
	fn := smtName("elem_" + typeName(e))
	if !te.pre.Has("fn:" + fn) {
		te.pre.Add("fn:"+fn, fmt.Sprintf("(declare-fun %s (Int Int) Int)", fn))
		ia, ii := smtName("inva_"+fn), smtName("invi_"+fn)
		te.pre.Add("fn:"+ia, fmt.Sprintf("(declare-fun %s (Int) Int)", ia))
		te.pre.Add("fn:"+ii, fmt.Sprintf("(declare-fun %s (Int) Int)", ii))
		k := te.subTag()
		te.pre.Add("ax:"+fn, fmt.Sprintf("(assert (forall ((p Int) (i Int)) (! (and (= (%s (%s p i)) p) (= (%s (%s p i)) i) (= (subtag (%s p i)) %d) (not (= (%s p i) 0)) (= (atime (%s p i)) (atime p))) :pattern ((%s p i)))))", ia, fn, ii, fn, fn, k, fn, fn, fn))
	}
	return Term{app(fn, ref.S, idx.S), SInt}
}

// FieldLoc returns the location of field i of the struct object (of type t) at ref.
func (te *TypeEnv) FieldLoc(t types.Type, i int, ref Term) *Loc {
	st := t.Underlying().(*types.Struct)
	ft := st.Field(i).Type()
	if te.isAggregate(ft) {
		return &Loc{Kind: "obj", Base: te.subObj(t, i, ref), Typ: ft}
	}
	if pt := derefType(ft); pt != nil {
		if n, ok := types.Unalias(pt).(*types.Named); ok {
			switch qualName(n) {
			case "sync.Mutex", "sync.RWMutex":
				// fields holding a pointer to a mutex are set at construction and never reassigned (listed assumption):
				// unknown calls do not change which mutex an object uses
				if te.immutable != nil {
					te.immutable[te.fieldHeap(t, i)] = true
				}
			}
		}
	}
	return &Loc{Kind: "field", Base: ref, Heap: te.fieldHeap(t, i), Typ: ft}
}

// ElemLoc returns the location of element idx (element type e) of the array object at ref.
func (te *TypeEnv) ElemLoc(e types.Type, ref, idx Term) *Loc {
	if te.isAggregate(e) {
		return &Loc{Kind: "obj", Base: te.elemObj(e, ref, idx), Typ: e}
	}
	return &Loc{Kind: "elem", Base: ref, Idx: idx, Heap: te.elemHeap(e), Typ: e}
}

// PtrLoc returns the location a pointer value p (pointing to type t) denotes when nothing more precise is known.
func (te *TypeEnv) PtrLoc(t types.Type, p Term) *Loc {
	if te.isAggregate(t) {
		return &Loc{Kind: "obj", Base: p, Typ: t}
	}
	return &Loc{Kind: "cell", Base: p, Heap: te.cellHeap(t), Typ: t}
}

// Load reads the value at loc in state st.
func (te *TypeEnv) Load(st *State, loc *Loc) Term {
	t := loc.Typ
	switch loc.Kind {
	case "global":
		return st.Get(loc.Heap, te.SortOf(t))
	case "field", "cell":
		h := st.Get(loc.Heap, arraySort(SInt, te.SortOf(t)))
		return tSelect(h, loc.Base)
	case "elem":
		h := st.Get(loc.Heap, arraySort(SInt, arraySort(SInt, te.SortOf(t))))
		return tSelect(tSelect(h, loc.Base), loc.Idx)
	case "obj":
		if te.isStructVal(t) {
			si := te.StructInfo(t)
			st0 := si.st
			if st0.NumFields() == 0 {
				return Term{"mk_" + si.sort, si.sort}
			}
			var args []string
			for i := 0; i < st0.NumFields(); i++ {
				args = append(args, te.Load(st, te.FieldLoc(t, i, loc.Base)).S)
			}
			return Term{app("mk_"+si.sort, args...), si.sort}
		}
		if a, ok := isArray(t); ok {
			e := a.Elem()
			if !te.isAggregate(e) {
				h := st.Get(te.elemHeap(e), arraySort(SInt, arraySort(SInt, te.SortOf(e))))
				return tSelect(h, loc.Base)
			}
			// array of aggregates: build explicitly for small arrays
			s := te.SortOf(t)
			n := a.Len()
			if n <= 16 {
				cur := te.Zero(t)
				for i := int64(0); i < n; i++ {
					v := te.Load(st, te.ElemLoc(e, loc.Base, tInt(i)))
					cur = tStore(cur, tInt(i), v)
				}
				return cur
			}
			r := st.vc.fresh("arrval", s)
			st.vc.note("load of large array of aggregates approximated")
			return r
		}
	}
	panic("Load: bad loc kind " + loc.Kind)
}

// Store writes v at loc in state st.
func (te *TypeEnv) Store(st *State, loc *Loc, v Term) {
	t := loc.Typ
	switch loc.Kind {
	case "global":
		st.Set(loc.Heap, v)
	case "field", "cell":
		hs := arraySort(SInt, te.SortOf(t))
		h := st.Get(loc.Heap, hs)
		st.Set(loc.Heap, st.vc.define(loc.Heap+"!s", tStore(h, loc.Base, v)))
	case "elem":
		hs := arraySort(SInt, arraySort(SInt, te.SortOf(t)))
		h := st.Get(loc.Heap, hs)
		inner := tStore(tSelect(h, loc.Base), loc.Idx, v)
		st.Set(loc.Heap, st.vc.define(loc.Heap+"!s", tStore(h, loc.Base, inner)))
	case "obj":
		if te.isStructVal(t) {
			si := te.StructInfo(t)
			for i := 0; i < si.st.NumFields(); i++ {
				fv := Term{app(si.fields[i], v.S), si.fsorts[i]}
				te.Store(st, te.FieldLoc(t, i, loc.Base), fv)
			}
			return
		}
		if a, ok := isArray(t); ok {
			e := a.Elem()
			if !te.isAggregate(e) {
				hs := arraySort(SInt, arraySort(SInt, te.SortOf(e)))
				hn := te.elemHeap(e)
				h := st.Get(hn, hs)
				st.Set(hn, st.vc.define(hn+"!s", tStore(h, loc.Base, v)))
				return
			}
			n := a.Len()
			if n <= 16 {
				for i := int64(0); i < n; i++ {
					te.Store(st, te.ElemLoc(e, loc.Base, tInt(i)), tSelect(v, tInt(i)))
				}
				return
			}
			st.vc.note("store of large array of aggregates dropped (havoc)")
			return
		}
		panic("Store: obj of non-aggregate type")
	default:
		panic("Store: bad loc kind " + loc.Kind)
	}
}

// heapsOf lists the heap names (and sorts) that a store to a location of type t at kind may touch.
func (te *TypeEnv) heapsOfLoc(loc *Loc, out map[string]string) {
	t := loc.Typ
	switch loc.Kind {
	case "global":
		out[loc.Heap] = te.SortOf(t)
	case "field", "cell":
		out[loc.Heap] = arraySort(SInt, te.SortOf(t))
	case "elem":
		out[loc.Heap] = arraySort(SInt, arraySort(SInt, te.SortOf(t)))
	case "obj":
		if te.isStructVal(t) {
			si := te.StructInfo(t)
			for i := 0; i < si.st.NumFields(); i++ {
				te.heapsOfLoc(te.FieldLoc(t, i, loc.Base), out)
			}
		} else if a, ok := isArray(t); ok {
			e := a.Elem()
			if !te.isAggregate(e) {
				out[te.elemHeap(e)] = arraySort(SInt, arraySort(SInt, te.SortOf(e)))
			} else {
				te.heapsOfLoc(te.ElemLoc(e, loc.Base, tInt(0)), out)
			}
		}
	}
}
