package main

import (
	"fmt"
	"go/types"
	"math/big"
	"strings"
)

const modPrefix = "github.com/AdguardTeam/AdGuardHome/internal/"

// abstractSorts maps fully-qualified named types to abstract SMT sorts.
var abstractSorts = map[string]string{
	"time.Time":          STime,
	"net/netip.Addr":     "NetipAddr",
	"net/netip.Prefix":   "NetipPrefix",
	"net/netip.AddrPort": "NetipAddrPort",
	"sync.Mutex":         "Mutex",
	"sync.RWMutex":       "RWMutex",
	"sync.Once":          "SyncOnce",
	"sync.WaitGroup":     "SyncWG",
	"math/big.Int":       "BigIntV",
	"strings.Builder":    "StrBuilder",
	"bytes.Buffer":       "BytesBuffer",
}

type TypeEnv struct {
	pre *Prelude
	// struct datatype info by sort name
	structs map[string]*structInfo
	tags    map[string]int // type string -> type tag
	tagList []types.Type
	pureSigs map[string]string
	heapRefKind map[string]string
	immutable map[string]bool
}

type structInfo struct {
	sort   string
	st     *types.Struct
	name   string // mangled type name
	fields []string
	fsorts []string
}

func NewTypeEnv(pre *Prelude) *TypeEnv {
	return &TypeEnv{pre: pre, structs: map[string]*structInfo{}, tags: map[string]int{}, pureSigs: map[string]string{}}
}

func qualName(n *types.Named) string {
	obj := n.Obj()
	s := obj.Name()
	if obj.Pkg() != nil {
		s = obj.Pkg().Path() + "." + s
	}
	if ta := n.TypeArgs(); ta != nil && ta.Len() > 0 {
		var as []string
		for i := 0; i < ta.Len(); i++ {
			as = append(as, types.TypeString(ta.At(i), nil))
		}
		s += "[" + strings.Join(as, ",") + "]"
	}
	return s
}

func typeName(t types.Type) string {
	switch t := t.(type) {
	case *types.Named:
		return mangle(strings.TrimPrefix(qualName(t), modPrefix))
	case *types.Alias:
		return typeName(types.Unalias(t))
	}
	s := types.TypeString(t, func(p *types.Package) string { return strings.TrimPrefix(p.Path(), modPrefix) })
	m := mangle(s)
	if len(m) > 60 {
		h := uint32(2166136261)
		for i := 0; i < len(s); i++ {
			h = (h ^ uint32(s[i])) * 16777619
		}
		m = fmt.Sprintf("%s_%08x", m[:40], h)
	}
	return m
}

// SortOf maps a Go type to an SMT sort, declaring datatypes on demand.
func (te *TypeEnv) SortOf(t types.Type) string {
	t = types.Unalias(t)
	if n, ok := t.(*types.Named); ok {
		if s, ok := abstractSorts[qualName(n)]; ok {
			if s != STime {
				te.pre.Add("sort:"+s, "(declare-sort "+s+" 0)")
			}
			return s
		}
	}
	switch u := t.Underlying().(type) {
	case *types.Basic:
		switch {
		case u.Info()&types.IsBoolean != 0:
			return SBool
		case u.Info()&types.IsInteger != 0:
			return SInt
		case u.Info()&types.IsString != 0:
			return SStr
		case u.Info()&types.IsFloat != 0, u.Info()&types.IsComplex != 0:
			return SFloat
		case u.Kind() == types.UnsafePointer:
			return SInt
		case u.Kind() == types.UntypedNil:
			return SInt
		}
		return SInt
	case *types.Pointer, *types.Map, *types.Chan, *types.Signature:
		return SInt
	case *types.Slice:
		return SSlice
	case *types.Interface:
		return SIface
	case *types.Array:
		return arraySort(SInt, te.SortOf(u.Elem()))
	case *types.Struct:
		return te.structSort(t, u)
	case *types.Tuple:
		return "Tuple"
	case *types.TypeParam:
		return SIface
	}
	panic(fmt.Sprintf("SortOf: unhandled type %T %v", t, t))
}

func (te *TypeEnv) structSort(t types.Type, st *types.Struct) string {
	name := "T_" + typeName(t)
	if _, ok := te.structs[name]; ok {
		return name
	}
	si := &structInfo{sort: name, st: st, name: typeName(t)}
	te.structs[name] = si // before recursion (no by-value recursion is possible in Go)
	var flds []string
	for i := 0; i < st.NumFields(); i++ {
		f := st.Field(i)
		fs := te.SortOf(f.Type())
		fn := fmt.Sprintf("%s.%s", name, fieldIdent(st, i))
		si.fields = append(si.fields, fn)
		si.fsorts = append(si.fsorts, fs)
		flds = append(flds, fmt.Sprintf("(%s %s)", fn, fs))
	}
	if len(flds) == 0 {
		te.pre.Add("dt:"+name, fmt.Sprintf("(declare-datatypes ((%s 0)) (((mk_%s))))", name, name))
	} else {
		te.pre.Add("dt:"+name, fmt.Sprintf("(declare-datatypes ((%s 0)) (((mk_%s %s))))", name, name, strings.Join(flds, " ")))
	}
	return name
}

func fieldIdent(st *types.Struct, i int) string {
	n := st.Field(i).Name()
	if n == "_" {
		return fmt.Sprintf("blank%d", i)
	}
	return n
}

func (te *TypeEnv) StructInfo(t types.Type) *structInfo {
	s := te.SortOf(t)
	return te.structs[s]
}

// isStructVal reports whether t is a (non-abstract) struct type, modelled as a datatype.
func (te *TypeEnv) isStructVal(t types.Type) bool {
	t = types.Unalias(t)
	if n, ok := t.(*types.Named); ok {
		if _, ok := abstractSorts[qualName(n)]; ok {
			return false
		}
	}
	_, ok := t.Underlying().(*types.Struct)
	return ok
}

func isArray(t types.Type) (*types.Array, bool) {
	a, ok := types.Unalias(t).Underlying().(*types.Array)
	return a, ok
}

// Zero returns the zero value of t.
func (te *TypeEnv) Zero(t types.Type) Term {
	s := te.SortOf(t)
	switch s {
	case SInt:
		return tInt(0)
	case SBool:
		return tFalse
	case SStr:
		return Term{"s_empty", SStr}
	case SSlice:
		return Term{"(mkSlice 0 0 0 0)", SSlice}
	case SIface:
		return Term{"(mkIface 0 0)", SIface}
	}
	if te.isStructVal(t) {
		si := te.StructInfo(t)
		st := si.st
		if st.NumFields() == 0 {
			return Term{"mk_" + s, s}
		}
		var args []string
		for i := 0; i < st.NumFields(); i++ {
			args = append(args, te.Zero(st.Field(i).Type()).S)
		}
		return Term{app("mk_"+s, args...), s}
	}
	if a, ok := isArray(t); ok {
		return Term{fmt.Sprintf("((as const %s) %s)", s, te.Zero(a.Elem()).S), s}
	}
	// abstract sort
	zn := "zero_" + mangle(s)
	te.pre.Add("const:"+zn, fmt.Sprintf("(declare-const %s %s)", zn, s))
	return Term{zn, s}
}

// TypeTag returns a positive integer tag identifying the dynamic type t.
func (te *TypeEnv) TypeTag(t types.Type) int {
	t = types.Unalias(t)
	k := types.TypeString(t, nil)
	if v, ok := te.tags[k]; ok {
		return v
	}
	v := len(te.tags) + 1
	te.tags[k] = v
	te.tagList = append(te.tagList, t)
	return v
}

// Box converts a value of Go type t to an interface payload Int.
func (te *TypeEnv) Box(t types.Type, v Term) Term {
	s := te.SortOf(t)
	if s == SInt {
		return v
	}
	b, _ := te.boxFns(s)
	return Term{app(b, v.S), SInt}
}

func (te *TypeEnv) Unbox(t types.Type, p Term) Term {
	s := te.SortOf(t)
	if s == SInt {
		return p
	}
	_, u := te.boxFns(s)
	return Term{app(u, p.S), s}
}

func (te *TypeEnv) boxFns(s string) (string, string) {
	m := mangle(s)
	b, u := "box_"+m, "unbox_"+m
	te.pre.Add("fn:"+b, fmt.Sprintf("(declare-fun %s (%s) Int)", b, s))
	te.pre.Add("fn:"+u, fmt.Sprintf("(declare-fun %s (Int) %s)", u, s))
	te.pre.Add("ax:"+b, fmt.Sprintf("(assert (forall ((x %s)) (! (= (%s (%s x)) x) :pattern ((%s x)))))", s, u, b, b))
	return b, u
}

// intRange returns the range of an integer type.
func intRange(t types.Type) (lo, hi *big.Int, ok bool) {
	b, isb := types.Unalias(t).Underlying().(*types.Basic)
	if !isb || b.Info()&types.IsInteger == 0 {
		return nil, nil, false
	}
	bits := 64
	signed := true
	switch b.Kind() {
	case types.Int8:
		bits = 8
	case types.Int16:
		bits = 16
	case types.Int32:
		bits = 32
	case types.Int64, types.Int:
		bits = 64
	case types.Uint8:
		bits, signed = 8, false
	case types.Uint16:
		bits, signed = 16, false
	case types.Uint32:
		bits, signed = 32, false
	case types.Uint64, types.Uint, types.Uintptr:
		bits, signed = 64, false
	case types.UntypedInt, types.UntypedRune:
		return nil, nil, false
	}
	one := big.NewInt(1)
	if signed {
		hi = new(big.Int).Lsh(one, uint(bits-1))
		lo = new(big.Int).Neg(hi)
		hi = new(big.Int).Sub(hi, one)
	} else {
		lo = big.NewInt(0)
		hi = new(big.Int).Sub(new(big.Int).Lsh(one, uint(bits)), one)
	}
	return lo, hi, true
}

func bigTerm(b *big.Int) string {
	if b.Sign() < 0 {
		return "(- " + new(big.Int).Neg(b).String() + ")"
	}
	return b.String()
}

// inRange returns the constraint lo <= v <= hi for integer type t (true for non-integers).
func inRange(t types.Type, v Term) Term {
	lo, hi, ok := intRange(t)
	if !ok {
		return tTrue
	}
	return Term{fmt.Sprintf("(and (<= %s %s) (<= %s %s))", bigTerm(lo), v.S, v.S, bigTerm(hi)), SBool}
}

// wrap wraps v into the range of integer type t (Go's modular arithmetic).
func wrap(t types.Type, v Term) Term {
	lo, hi, ok := intRange(t)
	if !ok {
		return v
	}
	size := new(big.Int).Add(new(big.Int).Sub(hi, lo), big.NewInt(1))
	// constant folding
	if n, isNum := parseNum(v.S); isNum {
		r := new(big.Int).Sub(n, lo)
		r.Mod(r, size)
		r.Add(r, lo)
		return Term{bigTerm(r), SInt}
	}
	var w string
	if lo.Sign() == 0 {
		w = fmt.Sprintf("(mod %s %s)", v.S, size.String())
	} else {
		w = fmt.Sprintf("(+ (mod (- %s %s) %s) %s)", v.S, bigTerm(lo), size.String(), bigTerm(lo))
	}
	return Term{fmt.Sprintf("(ite (and (<= %s %s) (<= %s %s)) %s %s)", bigTerm(lo), v.S, v.S, bigTerm(hi), v.S, w), SInt}
}

func parseNum(s string) (*big.Int, bool) {
	neg := false
	if strings.HasPrefix(s, "(- ") && strings.HasSuffix(s, ")") {
		neg = true
		s = s[3 : len(s)-1]
	}
	if s == "" {
		return nil, false
	}
	for _, c := range s {
		if c < '0' || c > '9' {
			return nil, false
		}
	}
	n, ok := new(big.Int).SetString(s, 10)
	if !ok {
		return nil, false
	}
	if neg {
		n.Neg(n)
	}
	return n, true
}

func isPointerLike(t types.Type) bool {
	switch types.Unalias(t).Underlying().(type) {
	case *types.Pointer, *types.Map, *types.Chan, *types.Signature:
		return true
	}
	return false
}

func derefType(t types.Type) types.Type {
	if p, ok := types.Unalias(t).Underlying().(*types.Pointer); ok {
		return p.Elem()
	}
	return nil
}
