package main

import (
	"fmt"
	"go/token"
	"go/types"
	"strings"

	"golang.org/x/tools/go/ssa"
)

type modTarget struct {
	heap string
	sort string
	base Term
	all  bool // whole heap variable
	vacuous *Term // condition under which the target denotes no location at all (elems of a slice without capacity)
}

// funcKey returns (package path, contract key) of an SSA function.
func funcKey(fn *ssa.Function) (string, string) {
	if o := fn.Origin(); o != nil {
		fn = o
	}
	pkg := ""
	if fn.Pkg != nil {
		pkg = fn.Pkg.Pkg.Path()
	} else if obj := fn.Object(); obj != nil && obj.Pkg() != nil {
		pkg = obj.Pkg().Path()
	}
	name := fn.Name()
	if par := fn.Parent(); par != nil {
		pp, pk := funcKey(par)
		suffix := name
		if i := strings.LastIndex(name, "$"); i >= 0 {
			suffix = name[i:]
		}
		return pp, pk + suffix
	}
	if recv := fn.Signature.Recv(); recv != nil {
		rt := recv.Type()
		if p, ok := rt.(*types.Pointer); ok {
			name = "(*" + namedName(p.Elem()) + ")." + name
		} else {
			name = namedName(rt) + "." + name
		}
	}
	return pkg, name
}

func namedName(t types.Type) string {
	t = types.Unalias(t)
	if n, ok := t.(*types.Named); ok {
		return n.Obj().Name()
	}
	return t.String()
}

func methodKey(recv types.Type, name string) (string, string) {
	pkg := ""
	key := name
	rt := types.Unalias(recv)
	if p, ok := rt.(*types.Pointer); ok {
		if n, ok := types.Unalias(p.Elem()).(*types.Named); ok {
			if n.Obj().Pkg() != nil {
				pkg = n.Obj().Pkg().Path()
			}
			key = "(*" + n.Obj().Name() + ")." + name
		}
	} else if n, ok := rt.(*types.Named); ok {
		if n.Obj().Pkg() != nil {
			pkg = n.Obj().Pkg().Path()
		}
		key = n.Obj().Name() + "." + name
	}
	return pkg, key
}

func (s *Session) contractFor(fn *ssa.Function) *Contract {
	if fn == nil {
		return nil
	}
	p, k := funcKey(fn)
	return s.specs.Contracts[p+"::"+k]
}

func (s *Session) isPure(full string, pkg string) bool {
	if s.specs.PureFuncs[full] {
		return true
	}
	if s.specs.PureFuncs[pkg+".*"] {
		return true
	}
	return false
}

func fullName(fn *ssa.Function) string {
	if o := fn.Origin(); o != nil {
		fn = o
	}
	return fn.String()
}

func (fr *Frame) callArgs(cc *ssa.CallCommon) []Term {
	var args []Term
	for _, a := range cc.Args {
		args = append(args, fr.val(a))
	}
	return args
}

func (fr *Frame) setResults(v ssa.Value, res []Term, sig *types.Signature) {
	if v == nil {
		return
	}
	n := sig.Results().Len()
	// whatever a call returns exists now: it is older than anything allocated from here on
	for i := 0; i < n && i < len(res); i++ {
		switch types.Unalias(sig.Results().At(i).Type()).Underlying().(type) {
		case *types.Pointer, *types.Map:
			fr.vc.assume(Term{fmt.Sprintf("(<= (atime %s) %s)", res[i].S, fr.cur.Get("clk", SInt).S), SBool})
		case *types.Slice:
			fr.vc.assume(Term{fmt.Sprintf("(<= (atime (sarr %s)) %s)", res[i].S, fr.cur.Get("clk", SInt).S), SBool})
		}
	}
	switch {
	case n == 0:
	case n == 1:
		if len(res) == 1 {
			fr.vals[v] = res[0]
		}
	default:
		fr.tuples[v] = res
	}
}

func (fr *Frame) freshResults(sig *types.Signature, hint string) []Term {
	var res []Term
	for i := 0; i < sig.Results().Len(); i++ {
		res = append(res, fr.havocVal(sig.Results().At(i).Type(), hint))
	}
	return res
}

func (fr *Frame) execCall(v ssa.Value, cc *ssa.CallCommon, ins ssa.Instruction) {
	vc := fr.vc
	sig := cc.Signature()
	hint := "call"
	if v != nil {
		hint = fr.vname(v)
	}
	if b, ok := cc.Value.(*ssa.Builtin); ok {
		fr.execBuiltin(v, b, cc, ins)
		return
	}
	if cc.IsInvoke() {
		recv := fr.val(cc.Value)
		args := append([]Term{recv}, fr.callArgs(cc)...)
		it := cc.Value.Type()
		pkg, key := methodKey(it, cc.Method.Name())
		fr.callsiteObligations("("+types.TypeString(it, nil)+")."+cc.Method.Name(), sig, it, args, ins)
		if c := vc.sess.specs.Contracts[pkg+"::"+key]; c != nil {
			res := fr.applyContract(c, sig, it, args, ins, hint)
			fr.setResults(v, res, sig)
			return
		}
		full := "(" + types.TypeString(it, nil) + ")." + cc.Method.Name()
		if vc.sess.isPure(full, pkg) {
			vc.externUsed["pure "+full] = true
			fr.setResults(v, fr.freshResults(sig, hint), sig)
			return
		}
		fr.unknownCall(v, sig, full, cc, hint)
		return
	}
	if fn := cc.StaticCallee(); fn != nil {
		if mc, ok := cc.Value.(*ssa.MakeClosure); ok {
			ci := fr.closures[mc]
			if ci == nil && fr.parent != nil {
				ci = fr.parent.closures[mc]
			}
			if ci != nil {
				res := fr.inlineCall(ci.fn, fr.callArgs(cc), ci, ins)
				fr.setResults(v, res, sig)
				return
			}
		}
		fr.callStatic(v, fn, fr.callArgs(cc), cc, ins, hint)
		return
	}
	// dynamic call through a function value: call-site clauses may name it "dyncall" or "functype:<pkg>.<Type>"
	fr.callsiteObligations("dyncall", sig, nil, fr.callArgs(cc), ins)
	if k := fieldCallKey(cc.Value); k != "" {
		fr.callsiteObligations(k, sig, nil, fr.callArgs(cc), ins)
	}
	if n, ok := types.Unalias(cc.Value.Type()).(*types.Named); ok && n.Obj().Pkg() != nil {
		fr.callsiteObligations("functype:"+n.Obj().Pkg().Path()+"."+n.Obj().Name(), sig, nil, fr.callArgs(cc), ins)
	}
	if ci := fr.closureOf(cc.Value); ci != nil {
		res := fr.inlineCall(ci.fn, fr.callArgs(cc), ci, ins)
		fr.setResults(v, res, sig)
		return
	}
	// function stored in a struct field with a contract "func (fieldcall) <Type>_<field>(...)": what every function
	// stored there guarantees (the functions put into the field are verified against the same postconditions)
	if k := fieldCallKey(cc.Value); k != "" {
		rest := strings.TrimPrefix(k, "fieldcall:")
		if i := strings.LastIndex(rest, "."); i > 0 {
			if j := strings.LastIndex(rest[:i], "."); j > 0 {
				pkgPath, typ, field := rest[:j], rest[j+1:i], rest[i+1:]
				if c := vc.sess.specs.Contracts[pkgPath+"::fieldcall."+typ+"_"+field]; c != nil {
					res := fr.applyContract(c, sig, nil, fr.callArgs(cc), ins, hint)
					fr.setResults(v, res, sig)
					return
				}
			}
		}
	}
	// named function type with a functype contract
	if n, ok := types.Unalias(cc.Value.Type()).(*types.Named); ok && n.Obj().Pkg() != nil {
		if c := vc.sess.specs.Contracts[n.Obj().Pkg().Path()+"::functype."+n.Obj().Name()]; c != nil {
			res := fr.applyContract(c, sig, nil, fr.callArgs(cc), ins, hint)
			fr.setResults(v, res, sig)
			return
		}
	}
	fr.unknownCall(v, sig, "dynamic call of "+cc.Value.Name(), cc, hint)
}

func (fr *Frame) closureOf(v ssa.Value) *closureInfo {
	for f := fr; f != nil; f = f.parent {
		if ci, ok := f.closures[v]; ok {
			return ci
		}
	}
	// by id term
	if t, ok := fr.vals[v]; ok {
		if ci, ok := fr.vc.sess.closureByID[t.S]; ok {
			return ci
		}
	}
	if fn, ok := v.(*ssa.Function); ok {
		return &closureInfo{fn: fn}
	}
	return nil
}

// callsiteObligations emits the callsite clauses of the top-level contract (and package-level ones) for a call of callee.
func (fr *Frame) callsiteObligations(full string, sig *types.Signature, recvT types.Type, args []Term, ins ssa.Instruction) {
	vc := fr.vc
	var reqs []*CallsiteReq
	if vc.top != nil && vc.top.contract != nil {
		for _, cr := range vc.top.contract.Callsites {
			if cr.Callee == full {
				reqs = append(reqs, cr)
			}
		}
	}
	for _, cr := range vc.sess.specs.Callsites {
		if cr.Callee == full && fr.fn.Pkg != nil && cr.Pkg == fr.fn.Pkg.Pkg.Path() {
			reqs = append(reqs, cr)
		}
	}
	for _, cr := range reqs {
		if vc.sess.lockSweep && !strings.Contains(cr.Req.Text, "held(") && !strings.Contains(cr.Req.Text, "nolocks(") {
			// the lock sweep loads only the packages whose locks it follows: clauses that do not speak about locks may
			// use vocabulary of packages it has not loaded, and are none of its business
			vc.coveredCallsites[fmt.Sprintf("%s@%s:%d", full, fr.fn.Name(), vc.sess.pos(fr.pos(ins)).Line)] = true
			continue
		}
		env := fr.specEnv(fr.cur, fr.oldState)
		env.atBlock, env.atIdx = fr.curBlock, fr.curIdx
		// entry values of the enclosing function's parameters are available as <name>0
		for _, prm := range fr.fn.Params {
			if t, ok := fr.vals[prm]; ok {
				env.vars[prm.Name()+"0"] = Val{T: t, Typ: prm.Type()}
			}
		}
		i := 0
		if recvT != nil {
			i = 1
		}
		np := 0
		for k, pn := range cr.Params {
			if recvT != nil && k == 0 && len(cr.Params) == sig.Params().Len()+1 {
				env.vars[pn] = Val{T: args[0], Typ: recvT}
				np = 1
				continue
			}
			idx := k - np
			if i+idx < len(args) && idx < sig.Params().Len() {
				env.vars[pn] = Val{T: args[i+idx], Typ: sig.Params().At(idx).Type()}
			}
		}
		t, err := env.evalBool(cr.Req.E)
		if err != nil {
			vc.sess.fatalf("callsite clause for %s in %s: %v", full, fr.fn.Name(), err)
		}
		line := vc.sess.pos(fr.pos(ins)).Line
		vc.coveredCallsites[fmt.Sprintf("%s@%s:%d", full, fr.fn.Name(), line)] = true
		vc.oblige(fmt.Sprintf("callsite:%s@%s:%d", full, fr.fn.Name(), line), fr.curReach, t, "call-site requirement for "+full+": "+cr.Req.Text, fr.pos(ins))
	}
}

func (fr *Frame) callStatic(v ssa.Value, fn *ssa.Function, args []Term, cc *ssa.CallCommon, ins ssa.Instruction, hint string) {
	vc := fr.vc
	sig := fn.Signature
	{
		var rt types.Type
		if sig.Recv() != nil {
			rt = sig.Recv().Type()
		}
		fr.callsiteObligations(fullName(fn), sig, rt, args, ins)
	}
	if c := vc.sess.contractFor(fn); c != nil && c.Inline && fn.Blocks == nil {
		// the body that should be inlined is not loaded: nothing may be assumed
		fr.unknownCall(v, sig, fullName(fn)+" (inline contract but body not loaded)", cc, hint)
		return
	}
	if c := vc.sess.contractFor(fn); c != nil && !(c.Inline && fn.Blocks != nil) {
		var rt types.Type
		if sig.Recv() != nil {
			rt = sig.Recv().Type()
		}
		fr.calleeTypeArgs = typeArgsOf(fn)
		fr.calleeFn = fn
		res := fr.applyContract(c, sig, rt, args, ins, hint)
		fr.calleeTypeArgs = nil
		fr.calleeFn = nil
		fr.setResults(v, res, sig)
		return
	}
	full := fullName(fn)
	pkgPath, _ := funcKey(fn)
	c := vc.sess.contractFor(fn)
	inlinable := fn.Blocks != nil && fr.depth < 8 && (fn.Parent() != nil || (c != nil && c.Inline) || vc.sess.autoInline[full])
	if inlinable {
		res := fr.inlineCall(fn, args, nil, ins)
		fr.setResults(v, res, sig)
		return
	}
	if vc.sess.isPure(full, pkgPath) {
		vc.externUsed["pure "+full] = true
		fr.setResults(v, fr.freshResults(sig, hint), sig)
		return
	}
	fr.unknownCall(v, sig, full, cc, hint)
}

func (fr *Frame) unknownCall(v ssa.Value, sig *types.Signature, what string, cc *ssa.CallCommon, hint string) {
	vc := fr.vc
	vc.note("call without contract: " + what + " (all heaps havocked)")
	if cc != nil {
		for _, a := range cc.Args {
			fr.noteEscape(a)
		}
		if cc.IsInvoke() {
			fr.noteEscape(cc.Value)
		}
	}
	fr.frameCheckAll(what)
	fr.cur = fr.cur.HavocAll(fr.keepList())
	fr.setResults(v, fr.freshResults(sig, hint), sig)
}

func (fr *Frame) frameCheckAll(what string) {
	vc := fr.vc
	top := vc.top
	if top == nil || top.contract == nil || !top.contract.HasMod || top.contract.ModAll || vc.sess.noFrame {
		return
	}
	vc.oblige("frame:call@"+fr.fn.Name(), fr.curReach, tFalse, "call without frame ("+what+") inside function with modifies clause", token.NoPos)
}

// inlineCall executes the body of fn in a child frame.
func (fr *Frame) inlineCall(fn *ssa.Function, args []Term, ci *closureInfo, ins ssa.Instruction) []Term {
	vc := fr.vc
	if fn.Blocks == nil || fr.depth >= 10 {
		vc.note("inlining depth exceeded or no body: " + fn.String())
		fr.cur = fr.cur.HavocAll(fr.keepList())
		return fr.freshResults(fn.Signature, "inl")
	}
	child := vc.newFrame(fn, fr)
	child.oldState = fr.oldState
	child.unescaped = fr.unescaped
	if ci != nil {
		for i, fv := range fn.FreeVars {
			if i < len(ci.bindVals) {
				child.vals[fv] = ci.bindVals[i]
				if ci.bindLocs[i] != nil {
					child.locs[fv] = ci.bindLocs[i]
				}
			}
		}
	}
	for _, s := range fn.Blocks {
		for _, i2 := range s.Instrs {
			if _, ok := i2.(*ssa.Go); ok {
				_ = ok
			}
		}
	}
	exitReach, res, st := child.run(fr.curReach, fr.cur, args)
	_ = exitReach
	if len(child.rets) == 0 {
		// callee never returns (always panics): current path ends
		fr.vc.assume(tNot(fr.curReach))
		return fr.freshResults(fn.Signature, "inl")
	}
	fr.cur = st
	return res
}

func (fr *Frame) execDefer(ins *ssa.Defer) {
	if len(fr.loops) > 0 {
		for _, li := range fr.loops {
			if li.body[ins.Block()] {
				fr.vc.outOfSub = append(fr.vc.outOfSub, "defer inside loop in "+fr.fn.Name())
			}
		}
	}
	d := &deferRec{armed: fr.curReach, call: &ins.Call, instr: ins}
	d.args = fr.callArgs(&ins.Call)
	if !ins.Call.IsInvoke() {
		if _, isB := ins.Call.Value.(*ssa.Builtin); !isB {
			if ci := fr.closureOf(ins.Call.Value); ci != nil {
				d.closur = ci
			}
		}
	} else {
		d.fnVal = fr.val(ins.Call.Value)
	}
	fr.defers = append(fr.defers, d)
}

func (fr *Frame) runDefers(ins *ssa.RunDefers) {
	vc := fr.vc
	for i := len(fr.defers) - 1; i >= 0; i-- {
		d := fr.defers[i]
		before := fr.cur.clone()
		savedReach := fr.curReach
		fr.curReach = vc.define(fmt.Sprintf("f%d_dr%d", fr.id, i), tAnd(savedReach, d.armed))
		fr.execDeferredCall(d, ins)
		after := fr.cur
		fr.curReach = savedReach
		if d.armed.S == "true" || d.armed.S == savedReach.S {
			fr.cur = after
		} else {
			fr.cur = mergeStates(vc, []*State{after, before}, []Term{d.armed, tTrue})
		}
	}
}

func (fr *Frame) execDeferredCall(d *deferRec, ins ssa.Instruction) {
	fr.inDefer = true
	defer func() { fr.inDefer = false }()
	cc := d.call
	vc := fr.vc
	sig := cc.Signature()
	if !cc.IsInvoke() {
		if k := fieldCallKey(cc.Value); k != "" {
			fr.callsiteObligations(k, sig, nil, d.args, d.instr)
		}
	}
	if b, ok := cc.Value.(*ssa.Builtin); ok {
		_ = b
		vc.note("deferred builtin call ignored: " + b.Name())
		return
	}
	if cc.IsInvoke() {
		it := cc.Value.Type()
		pkg, key := methodKey(it, cc.Method.Name())
		args := append([]Term{d.fnVal}, d.args...)
		if c := vc.sess.specs.Contracts[pkg+"::"+key]; c != nil {
			fr.applyContract(c, sig, it, args, ins, "defer")
			return
		}
		full := "(" + types.TypeString(it, nil) + ")." + cc.Method.Name()
		if vc.sess.isPure(full, pkg) {
			return
		}
		fr.unknownCall(nil, sig, "deferred "+full, nil, "defer")
		return
	}
	if d.closur != nil && d.closur.fn.Blocks != nil {
		fn := d.closur.fn
		if c := vc.sess.contractFor(fn); c != nil && !c.Inline {
			var rt types.Type
			if fn.Signature.Recv() != nil {
				rt = fn.Signature.Recv().Type()
			}
			fr.applyContract(c, fn.Signature, rt, d.args, ins, "defer")
			return
		}
		if fn.Parent() != nil || vc.sess.autoInline[fullName(fn)] {
			fr.inlineCall(fn, d.args, d.closur, ins)
			return
		}
	}
	if fn := cc.StaticCallee(); fn != nil {
		fr.callStatic(nil, fn, d.args, nil, ins, "defer")
		return
	}
	// deferred call of a function stored in a struct field / of a named function type: the same contracts as for a
	// direct dynamic call
	if !cc.IsInvoke() {
		if c := fr.dynContract(cc); c != nil {
			fr.applyContract(c, sig, nil, d.args, ins, "defer")
			return
		}
	}
	fr.unknownCall(nil, sig, "deferred dynamic call", nil, "defer")
}

// applyContract checks the precondition, havocs the frame and assumes the postcondition of c.
func (fr *Frame) applyContract(c *Contract, sig *types.Signature, recvT types.Type, args []Term, ins ssa.Instruction, hint string) []Term {
	vc := fr.vc
	vc.sess.usedContracts[c.Pkg+"::"+c.Key] = true
	if c.Extern || c.Trusted {
		tag := "extern "
		if c.Trusted {
			tag = "trusted "
		}
		vc.externUsed[tag+c.Pkg+"::"+c.Key] = true
	}
	if len(c.Callbacks) > 0 {
		fr.runCallbacks(c, sig, recvT, args, ins)
	}
	pre := fr.cur.clone()
	env := fr.specEnv(pre, pre)
	env.noLookup = true
	fr.bindParams(env, c, sig, recvT, args)
	short := c.Key
	line := vc.sess.pos(fr.pos(ins)).Line
	for k, r := range c.Requires {
		t, err := env.evalBool(r.E)
		if err != nil {
			vc.sess.fatalf("contract %s requires %d: %v", c.Key, k+1, err)
		}
		vc.oblige(fmt.Sprintf("pre:%s:%s@%s:%d", short, clauseName(r, k), fr.fn.Name(), line), fr.curReach, t, "precondition of "+c.Key+": "+r.Text, fr.pos(ins))
	}
	// frame
	if c.ModAll || (!c.HasMod && !c.Extern && !c.Pure && !c.Trusted) {
		if !c.HasMod {
			// in-module contract without modifies clause: modifies nothing
		} else {
			fr.frameCheckAll(c.Key)
			fr.cur = fr.cur.HavocAll(fr.keepList())
		}
	}
	if !c.Pure {
		fr.cur.Havoc("clk", SInt) // the callee may allocate
	}
	// ghost updates "at entry" happen before anything the body does (so a later update inside the body, seen here only
	// as a havoc of that ghost, is not overwritten by them)
	{
		envE := fr.specEnv(fr.cur, pre)
		envE.noLookup = true
		fr.bindParams(envE, c, sig, recvT, args)
		for _, g := range c.Ghosts {
			if g.At == "entry" {
				fr.applyGhost(envE, g)
			}
		}
	}
	touched := map[string]bool{}
	if fr.calleeFn != nil && fr.calleeFn.Blocks != nil {
		vc.sess.ghostsTouched(fr.calleeFn, 0, touched, map[*ssa.Function]bool{})
	}
	if c.ModAll && !c.Extern && fr.calleeFn != nil && fr.calleeFn.Blocks != nil {
		// "modifies *" of a function with a body: the ghost variables that contracts of the functions it calls update
		// change as well (a ghost is otherwise preserved by a call); the contract's own ghost updates are applied below
		genv := fr.specEnv(fr.cur, fr.cur)
		for _, g := range sortedBool(touched) {
			if g == "LockW" || g == "LockR" {
				// lock state: a function returns holding the locks it was entered with (its own contract says otherwise
				// where it does not)
				continue
			}
			if gv := vc.sess.specs.Ghosts[g]; gv != nil {
				if _, srt, err := genv.ghostType(gv); err == nil {
					fr.cur.Havoc("ghost_"+g, srt)
				}
			}
		}
	}
	var targets []modTarget
	for _, m := range c.Modifies {
		ts, err := env.evalModTargets(m)
		if err != nil {
			vc.sess.fatalf("contract %s modifies %s: %v", c.Key, m, err)
		}
		targets = append(targets, ts...)
	}
	for _, t := range targets {
		if t.heap == "*" {
			fr.frameCheckAll(c.Key)
			fr.cur = fr.cur.HavocAll(fr.keepList())
			continue
		}
		fr.frameCheckTarget(t, c.Key, ins)
		h := fr.cur.Get(t.heap, t.sort)
		if t.all || !strings.HasPrefix(t.sort, "(Array Int ") {
			fr.cur.Havoc(t.heap, t.sort)
		} else {
			fv := vc.fresh("hv", arrayElemSort(t.sort))
			vc.assume(fr.te().refBound(t.heap, fv, fr.cur.Get("clk", SInt)))
			fr.cur.Set(t.heap, vc.define(t.heap+"!s", tStore(h, t.base, fv)))
		}
	}
	// results
	var res []Term
	for i := 0; i < sig.Results().Len(); i++ {
		rt := sig.Results().At(i).Type()
		if c.Pure {
			res = append(res, fr.pureApp(pre, c, i, sig, recvT, args))
		} else {
			res = append(res, fr.havocVal(rt, hint))
		}
	}
	// ghost updates at return of callee are part of its effect
	post := fr.cur
	env2 := fr.specEnv(post, pre)
	env2.noLookup = true
	fr.bindParams(env2, c, sig, recvT, args)
	for i, rn := range c.Results {
		if i < len(res) {
			env2.vars[rn] = Val{T: res[i], Typ: sig.Results().At(i).Type()}
		}
	}
	for _, g := range c.Ghosts {
		if g.At != "entry" {
			fr.applyGhost(env2, g)
		} else if !touched[g.Var] {
			// set at entry and not updated by anything the body calls: still that value (whatever the modifies list said)
			envE := fr.specEnv(fr.cur, pre)
			envE.noLookup = true
			fr.bindParams(envE, c, sig, recvT, args)
			fr.applyGhost(envE, g)
		}
	}
	if c.Pure {
		for i := range res {
			fr.assumeTyped(sig.Results().At(i).Type(), res[i])
		}
	}
	for k, e := range c.Ensures {
		t, err := env2.evalBool(e.E)
		if err != nil {
			if strings.HasPrefix(e.Name, "opt-") {
				continue // clause specialised to other argument types: not applicable at this call site
			}
			vc.sess.fatalf("contract %s ensures %d: %v", c.Key, k+1, err)
		}
		vc.assume(tImp(fr.curReach, t))
	}
	for k, e := range c.TrustedEnsures {
		t, err := env2.evalBool(e.E)
		if err != nil {
			vc.sess.fatalf("contract %s trusted-ensures %d: %v", c.Key, k+1, err)
		}
		vc.assume(tImp(fr.curReach, t))
		vc.assumes["trusted postcondition of "+c.Key+" (assumed at call sites, not proved on its body): "+e.Text] = true
	}
	return res
}

func (fr *Frame) applyGhost(env *Env, g GhostUpdate) {
	vc := fr.vc
	gv := vc.sess.specs.Ghosts[g.Var]
	if gv == nil {
		vc.sess.fatalf("ghost update of undeclared ghost variable %s", g.Var)
	}
	rhs, err := env.eval(g.Rhs)
	if err != nil {
		vc.sess.fatalf("ghost update %s: %v", g.Text, err)
	}
	name := "ghost_" + g.Var
	_, srt, err := env.ghostType(gv)
	if err != nil {
		vc.sess.fatalf("ghost var %s: %v", g.Var, err)
	}
	if g.Idx != nil {
		idx, err := env.eval(g.Idx)
		if err != nil {
			vc.sess.fatalf("ghost update %s: %v", g.Text, err)
		}
		cur := env.st.Get(name, srt)
		env.st.Set(name, vc.define(name+"!s", tStore(cur, idx.T, rhs.T)))
		return
	}
	env.st.Set(name, rhs.T)
}

func (fr *Frame) frameCheckTarget(t modTarget, callee string, ins ssa.Instruction) {
	vc := fr.vc
	top := vc.top
	if top == nil || top.contract == nil || !top.contract.HasMod || top.contract.ModAll || vc.sess.noFrame {
		return
	}
	var alts []Term
	if !t.all && t.base.S != "" {
		alts = append(alts, Term{fmt.Sprintf("(not (old_alloc %s))", fr.rootOf(t.base).S), SBool})
	}
	if t.vacuous != nil {
		alts = append(alts, *t.vacuous)
	}
	for _, m := range vc.modSet {
		if m.heap == t.heap {
			if m.all {
				alts = append(alts, tTrue)
			} else if !t.all {
				alts = append(alts, tEq(t.base, m.base))
			}
		}
	}
	vc.oblige(fmt.Sprintf("frame:%s@%s:%d", callee, fr.fn.Name(), vc.sess.pos(fr.pos(ins)).Line), fr.curReach, tOr(alts...), "callee modifies "+t.heap+" within caller's modifies clause", fr.pos(ins))
}

func (fr *Frame) bindParams(env *Env, c *Contract, sig *types.Signature, recvT types.Type, args []Term) {
	i := 0
	if recvT != nil {
		if c.RecvName != "" && i < len(args) {
			env.vars[c.RecvName] = Val{T: args[0], Typ: recvT}
		}
		i = 1
	}
	for k := 0; k < sig.Params().Len() && k < len(c.Params); k++ {
		if i+k < len(args) {
			env.vars[c.Params[k]] = Val{T: args[i+k], Typ: sig.Params().At(k).Type()}
		}
	}
}

// pureApp builds the uninterpreted application standing for result i of pure function c.
// Arguments that refer to mutable memory are completed so that the application is a function of its arguments only:
// slices of scalars carry their element array, pointer-like arguments carry the heap epoch (changed by every
// unknown call), so a pure function is never assumed stable across unknown mutation.
func (fr *Frame) pureApp(st *State, c *Contract, i int, sig *types.Signature, recvT types.Type, args []Term) Term {
	te := fr.te()
	name := "pf_" + mangle(strings.TrimPrefix(c.Pkg, modPrefix)+"."+c.Key)
	if sig.Results().Len() > 1 {
		name = fmt.Sprintf("%s_%d", name, i)
	}
	var argTypes []types.Type
	if recvT != nil {
		argTypes = append(argTypes, recvT)
	}
	for k := 0; k < sig.Params().Len(); k++ {
		argTypes = append(argTypes, sig.Params().At(k).Type())
	}
	var ss, as []string
	needEpoch := false
	for k, a := range args {
		ss = append(ss, a.Sort)
		as = append(as, a.S)
		if k < len(argTypes) {
			at := argTypes[k]
			if sl, ok := at.Underlying().(*types.Slice); ok && !te.isAggregate(sl.Elem()) {
				hs := arraySort(SInt, arraySort(SInt, te.SortOf(sl.Elem())))
				inner := tSelect(st.Get(te.elemHeap(sl.Elem()), hs), sArr(a))
				ss = append(ss, inner.Sort)
				as = append(as, inner.S)
			} else if isPointerLike(at) || a.Sort == SSlice || a.Sort == SIface {
				needEpoch = true
			}
		}
	}
	if needEpoch {
		ss = append(ss, SInt)
		as = append(as, st.Get("epoch", SInt).S)
	}
	rs := te.SortOf(sig.Results().At(i).Type())
	sigStr := strings.Join(ss, " ") + " -> " + rs
	if prev, ok := te.pureSigs[name]; ok && prev != sigStr {
		name = name + "_" + mangle(strings.Join(ss, "_"))
	}
	te.pureSigs[name] = sigStr
	first := !te.pre.Has("fn:" + name)
	te.pre.Add("fn:"+name, fmt.Sprintf("(declare-fun %s (%s) %s)", smtName(name), strings.Join(ss, " "), rs))
	if first && len(c.Ensures) > 0 && !needEpoch && len(ss) == len(args) && sig.Results().Len() == 1 {
		fr.pureAxioms(c, name, sig, recvT, ss, rs)
	}
	return Term{app(smtName(name), as...), rs}
}

func (fr *Frame) execBuiltin(v ssa.Value, b *ssa.Builtin, cc *ssa.CallCommon, ins ssa.Instruction) {
	te := fr.te()
	vc := fr.vc
	args := fr.callArgs(cc)
	switch b.Name() {
	case "len":
		x := args[0]
		switch xt := cc.Args[0].Type().Underlying().(type) {
		case *types.Slice:
			fr.vals[v] = sLen(x)
		case *types.Basic:
			fr.vals[v] = strLen(x)
		case *types.Map:
			fr.setVal(v, fr.mapLen(fr.cur, x))
			fr.vc.assume(tLe(tInt(0), fr.vals[v]))
		case *types.Array:
			fr.vals[v] = tInt(xt.Len())
		case *types.Pointer:
			fr.vals[v] = tInt(xt.Elem().Underlying().(*types.Array).Len())
		default:
			fr.vals[v] = fr.havocVal(v.Type(), fr.vname(v))
		}
	case "cap":
		switch xt := cc.Args[0].Type().Underlying().(type) {
		case *types.Slice:
			fr.vals[v] = sCap(args[0])
		case *types.Array:
			fr.vals[v] = tInt(xt.Len())
		default:
			fr.vals[v] = fr.havocVal(v.Type(), fr.vname(v))
		}
	case "append":
		fr.execAppend(v, cc, args, ins)
	case "copy":
		fr.execCopy(v, cc, args, ins)
	case "delete":
		mt := cc.Args[0].Type().Underlying().(*types.Map)
		fr.mapDelete(fr.cur, mt, args[0], args[1])
	case "min", "max":
		r := args[0]
		for _, a := range args[1:] {
			if r.Sort != SInt {
				r = fr.havocVal(v.Type(), fr.vname(v))
				break
			}
			if b.Name() == "min" {
				r = tIte(tLe(r, a), r, a)
			} else {
				r = tIte(tLe(a, r), r, a)
			}
		}
		fr.setVal(v, r)
	case "clear":
		if mt, ok := cc.Args[0].Type().Underlying().(*types.Map); ok {
			hn, _ := te.mapHeaps(mt)
			hs := te.mapHasSort(mt)
			h := fr.cur.Get(hn, hs)
			m := args[0]
			fr.cur.Set(hn, vc.define(hn+"!s", tIte(tEq(m, tInt(0)), h, tStore(h, m, Term{fmt.Sprintf("((as const %s) false)", arrayElemSort(hs)), arrayElemSort(hs)}))))
			ml := fr.cur.Get("MapLen", arraySort(SInt, SInt))
			fr.cur.Set("MapLen", vc.define("MapLen!s", tStore(ml, m, tInt(0))))
			return
		}
		st := cc.Args[0].Type().Underlying().(*types.Slice)
		vc.note("clear(slice) approximated by havoc of element heap")
		out := map[string]string{}
		fr.staticHeapsOfElems(st.Elem(), out)
		for _, h := range sortedKeys(out) {
			fr.cur.Havoc(h, out[h])
		}
	case "print", "println":
	case "recover":
		vc.outOfSub = append(vc.outOfSub, "recover in "+fr.fn.Name())
		fr.vals[v] = Term{"(mkIface 0 0)", SIface}
	case "close":
		vc.note("close(chan) ignored")
	case "panic":
		fr.safe("panic", tFalse, ins, "explicit panic unreachable")
	case "ssa:wrapnilchk":
		fr.vals[v] = args[0]
	default:
		vc.note("builtin " + b.Name() + " approximated")
		if v != nil {
			if _, ok := v.Type().(*types.Tuple); !ok && v.Type() != nil {
				fr.vals[v] = fr.havocVal(v.Type(), fr.vname(v))
			}
		}
	}
}

func (fr *Frame) execAppend(v ssa.Value, cc *ssa.CallCommon, args []Term, ins ssa.Instruction) {
	te := fr.te()
	vc := fr.vc
	s, t := args[0], args[1]
	st := cc.Args[0].Type().Underlying().(*types.Slice)
	e := st.Elem()
	var tlen, tElem func(i Term) Term
	_ = tlen
	var lt Term
	if t.Sort == SStr { // append([]byte, string...)
		lt = strLen(t)
		tElem = func(i Term) Term { return strAt(t, i) }
	} else {
		lt = sLen(t)
		if !te.isAggregate(e) {
			hn := te.elemHeap(e)
			hs := arraySort(SInt, arraySort(SInt, te.SortOf(e)))
			h := fr.cur.Get(hn, hs)
			inner := tSelect(h, sArr(t))
			tElem = func(i Term) Term { return tSelect(inner, tAdd(sOff(t), i)) }
		}
	}
	ls := sLen(s)
	n := vc.define(fr.vname(v)+"_n", tAdd(ls, lt))
	inplace := vc.define(fr.vname(v)+"_inpl", tLe(n, sCap(s)))
	newRef := fr.newRef("append")
	newCap := vc.fresh(fr.vname(v)+"_cap", SInt)
	vc.assume(Term{fmt.Sprintf("(and (>= %s %s) (<= %s 4611686018427387904))", newCap.S, n.S, newCap.S), SBool})
	res := tIte(inplace, mkSlice(sArr(s), sOff(s), n, sCap(s)), mkSlice(newRef, tInt(0), n, newCap))
	fr.setVal(v, res)
	k, known := fr.knownLen[cc.Args[1]]
	if lit, ok := parseNum(lt.S); ok && lit.IsInt64() {
		k, known = lit.Int64(), true
	}
	if te.isAggregate(e) {
		if !known || k > 8 {
			vc.note("append of aggregate elements with unknown count: element heaps havocked")
			out := map[string]string{}
			fr.staticHeapsOfElems(e, out)
			for _, h := range sortedKeys(out) {
				fr.cur.Havoc(h, out[h])
			}
			return
		}
		// copy existing elements to the new array when reallocating: express per field heap with quantifier
		fr.appendAggregate(e, s, t, inplace, newRef, k)
		return
	}
	hn := te.elemHeap(e)
	es := te.SortOf(e)
	hs := arraySort(SInt, arraySort(SInt, es))
	h := fr.cur.Get(hn, hs)
	oldInner := tSelect(h, sArr(s))
	var inInner, newInner Term
	if known && k <= 8 {
		inInner = oldInner
		newInner = vc.fresh("appnew", arraySort(SInt, es))
		vc.assume(Term{fmt.Sprintf("(forall ((i Int)) (! (=> (and (<= 0 i) (< i %s)) (= (select %s i) (select %s (+ %s i)))) :pattern ((select %s i))))", ls.S, newInner.S, oldInner.S, sOff(s).S, newInner.S), SBool})
		for i := int64(0); i < k; i++ {
			ev := tElem(tInt(i))
			inInner = tStore(inInner, tAdd(tAdd(sOff(s), ls), tInt(i)), ev)
			newInner = tStore(newInner, tAdd(ls, tInt(i)), ev)
		}
	} else {
		inInner = vc.fresh("appin", arraySort(SInt, es))
		newInner = vc.fresh("appnew", arraySort(SInt, es))
		base := tAdd(sOff(s), ls)
		vc.assume(Term{fmt.Sprintf("(forall ((i Int)) (! (= (select %s i) (ite (and (<= %s i) (< i (+ %s %s))) %s (select %s i))) :pattern ((select %s i))))",
			inInner.S, base.S, base.S, lt.S, tElem(Term{"(- i " + base.S + ")", SInt}).S, oldInner.S, inInner.S), SBool})
		vc.assume(Term{fmt.Sprintf("(forall ((i Int)) (! (=> (and (<= 0 i) (< i %s)) (= (select %s i) (ite (< i %s) (select %s (+ %s i)) %s))) :pattern ((select %s i))))",
			n.S, newInner.S, ls.S, oldInner.S, sOff(s).S, tElem(Term{"(- i " + ls.S + ")", SInt}).S, newInner.S), SBool})
	}
	nh := tIte(inplace, tStore(h, sArr(s), inInner), tStore(h, newRef, newInner))
	fr.cur.Set(hn, vc.define(hn+"!s", nh))
}

func (fr *Frame) appendAggregate(e types.Type, s, t Term, inplace Term, newRef Term, k int64) {
	te := fr.te()
	vc := fr.vc
	if !te.isStructVal(e) {
		vc.note("append of array elements approximated")
		return
	}
	// in place: store each appended element at elem(arr, off+len+i); reallocation: new elements at elem(newRef, len+i) and
	// old elements copied (quantified, per field heap).
	stT := e.Underlying().(*types.Struct)
	ls := sLen(s)
	efn := smtName("elem_" + typeName(e))
	te.elemObj(e, tInt(0), tInt(0)) // ensure declared
	ia := smtName("inva_" + efn)
	ii := smtName("invi_" + efn)
	for f := 0; f < stT.NumFields(); f++ {
		ft := stT.Field(f).Type()
		if te.isAggregate(ft) {
			vc.note("append: nested aggregate field " + stT.Field(f).Name() + " not copied precisely")
			continue
		}
		hn := te.fieldHeap(e, f)
		hs := arraySort(SInt, te.SortOf(ft))
		h := fr.cur.Get(hn, hs)
		// in-place version
		hin := h
		for i := int64(0); i < k; i++ {
			src := te.elemObj(e, sArr(t), tAdd(sOff(t), tInt(i)))
			dst := te.elemObj(e, sArr(s), tAdd(tAdd(sOff(s), ls), tInt(i)))
			hin = tStore(hin, dst, tSelect(h, src))
		}
		// reallocating version
		hnew := vc.fresh("appf", hs)
		vc.assume(Term{fmt.Sprintf("(forall ((p Int)) (! (= (select %s p) (ite (and (= (%s p) %s) (= p (%s %s (%s p))) (<= 0 (%s p)) (< (%s p) %s)) (select %s (%s %s (+ %s (%s p)))) (select %s p))) :pattern ((select %s p))))",
			hnew.S, ia, newRef.S, efn, newRef.S, ii, ii, ii, ls.S, h.S, efn, sArr(s).S, sOff(s).S, ii, h.S, hnew.S), SBool})
		hre := hnew
		for i := int64(0); i < k; i++ {
			src := te.elemObj(e, sArr(t), tAdd(sOff(t), tInt(i)))
			dst := te.elemObj(e, newRef, tAdd(ls, tInt(i)))
			hre = tStore(hre, dst, tSelect(h, src))
		}
		fr.cur.Set(hn, vc.define(hn+"!s", tIte(inplace, hin, hre)))
	}
}

func (fr *Frame) execCopy(v ssa.Value, cc *ssa.CallCommon, args []Term, ins ssa.Instruction) {
	te := fr.te()
	vc := fr.vc
	dst, src := args[0], args[1]
	e := cc.Args[0].Type().Underlying().(*types.Slice).Elem()
	var ls Term
	var srcElem func(i Term) Term
	if src.Sort == SStr {
		ls = strLen(src)
		srcElem = func(i Term) Term { return strAt(src, i) }
	} else {
		ls = sLen(src)
	}
	n := tIte(tLe(sLen(dst), ls), sLen(dst), ls)
	if a, ok := parseNum(sLen(dst).S); ok {
		if b, ok := parseNum(ls.S); ok {
			if a.Cmp(b) <= 0 {
				n = Term{a.String(), SInt}
			} else {
				n = Term{b.String(), SInt}
			}
		}
	}
	n = vc.define(fr.vname(v)+"_n", n)
	fr.vals[v] = n
	if te.isStructVal(e) && fr.copyStructs(e, dst, src, n, ins) {
		return
	}
	if te.isAggregate(e) {
		vc.note("copy of aggregate elements approximated by havoc")
		out := map[string]string{}
		fr.staticHeapsOfElems(e, out)
		for _, h := range sortedKeys(out) {
			fr.cur.Havoc(h, out[h])
		}
		return
	}
	hn := te.elemHeap(e)
	es := te.SortOf(e)
	hs := arraySort(SInt, arraySort(SInt, es))
	h := fr.cur.Get(hn, hs)
	if srcElem == nil {
		inner := tSelect(h, sArr(src))
		srcElem = func(i Term) Term { return tSelect(inner, tAdd(sOff(src), i)) }
	}
	fr.checkFrame(&Loc{Kind: "elem", Base: sArr(dst), Idx: tInt(0), Heap: hn, Typ: e}, ins)
	dInner := tSelect(h, sArr(dst))
	var nInner Term
	if k, ok := parseNum(n.S); ok && k.IsInt64() && k.Int64() <= 16 {
		nInner = dInner
		for i := int64(0); i < k.Int64(); i++ {
			nInner = tStore(nInner, tAdd(sOff(dst), tInt(i)), srcElem(tInt(i)))
		}
	} else {
		nInner = vc.fresh("copyres", arraySort(SInt, es))
		vc.assume(Term{fmt.Sprintf("(forall ((i Int)) (! (= (select %s i) (ite (and (<= %s i) (< i (+ %s %s))) %s (select %s i))) :pattern ((select %s i))))",
			nInner.S, sOff(dst).S, sOff(dst).S, n.S, srcElem(Term{"(- i " + sOff(dst).S + ")", SInt}).S, dInner.S, nInner.S), SBool})
	}
	fr.cur.Set(hn, vc.define(hn+"!s", tStore(h, sArr(dst), nInner)))
}

// copyStructs models copy(dst, src) for slices of structs whose fields are all scalars: per field heap, the first n
// elements of dst take the values of the first n elements of src (read in the state before the copy, as Go's copy
// does for overlapping slices); every other object keeps its value.  Returns false when a field is itself an aggregate.
func (fr *Frame) copyStructs(e types.Type, dst, src, n Term, ins ssa.Instruction) bool {
	te := fr.te()
	vc := fr.vc
	stT := e.Underlying().(*types.Struct)
	for f := 0; f < stT.NumFields(); f++ {
		if te.isAggregate(stT.Field(f).Type()) {
			return false
		}
	}
	efn := smtName("elem_" + typeName(e))
	te.elemObj(e, tInt(0), tInt(0)) // ensure declared
	ii := smtName("invi_" + efn)
	for f := 0; f < stT.NumFields(); f++ {
		ft := stT.Field(f).Type()
		hn := te.fieldHeap(e, f)
		hs := arraySort(SInt, te.SortOf(ft))
		h := fr.cur.Get(hn, hs)
		fr.checkFrame(&Loc{Kind: "field", Base: te.elemObj(e, sArr(dst), sOff(dst)), Heap: hn, Typ: ft}, ins)
		hnew := vc.fresh("copyf", hs)
		vc.assume(Term{fmt.Sprintf("(forall ((p Int)) (! (= (select %s p) (ite (and (= p (%s %s (%s p))) (<= %s (%s p)) (< (%s p) (+ %s %s))) (select %s (%s %s (+ %s (- (%s p) %s)))) (select %s p))) :pattern ((select %s p))))",
			hnew.S, efn, sArr(dst).S, ii, sOff(dst).S, ii, ii, sOff(dst).S, n.S, h.S, efn, sArr(src).S, sOff(src).S, ii, sOff(dst).S, h.S, hnew.S), SBool})
		fr.cur.Set(hn, vc.define(hn+"!s", hnew))
	}
	return true
}

// callModifies adds to heaps the heap variables a call may modify (by contract); returns true if unknown (everything).
func (fr *Frame) callModifies(cc *ssa.CallCommon, heaps map[string]string) bool {
	vc := fr.vc
	te := fr.te()
	if b, ok := cc.Value.(*ssa.Builtin); ok {
		switch b.Name() {
		case "append", "copy", "clear":
			if st, ok := cc.Args[0].Type().Underlying().(*types.Slice); ok {
				fr.staticHeapsOfElems(st.Elem(), heaps)
			}
			if mt, ok := cc.Args[0].Type().Underlying().(*types.Map); ok {
				h, _ := te.mapHeaps(mt)
				heaps[h] = te.mapHasSort(mt)
				heaps["MapLen"] = arraySort(SInt, SInt)
			}
		case "delete":
			mt := cc.Args[0].Type().Underlying().(*types.Map)
			h, _ := te.mapHeaps(mt)
			heaps[h] = te.mapHasSort(mt)
			heaps["MapLen"] = arraySort(SInt, SInt)
		}
		return false
	}
	var c *Contract
	var full, pkg string
	var callee *ssa.Function
	if cc.IsInvoke() {
		p, key := methodKey(cc.Value.Type(), cc.Method.Name())
		c = vc.sess.specs.Contracts[p+"::"+key]
		full = "(" + types.TypeString(cc.Value.Type(), nil) + ")." + cc.Method.Name()
		pkg = p
	} else if fn := cc.StaticCallee(); fn != nil {
		c = vc.sess.contractFor(fn)
		full = fullName(fn)
		pkg, _ = funcKey(fn)
		callee = fn
	} else if ci := fr.closureOf(cc.Value); ci != nil {
		callee = ci.fn
		c = vc.sess.contractFor(callee)
	} else if c2 := fr.dynContract(cc); c2 != nil {
		c = c2
	}
	if c != nil && !(c.Inline && callee != nil && callee.Blocks != nil) {
		if c.ModAll {
			return true
		}
		for _, m := range c.Modifies {
			if fr.staticModHeaps(c, m, cc, heaps) {
				return true
			}
		}
		for _, g := range c.Ghosts {
			gv := vc.sess.specs.Ghosts[g.Var]
			if gv != nil {
				env := fr.specEnv(fr.cur, fr.cur)
				_, gs, _ := env.ghostType(gv)
				heaps["ghost_"+g.Var] = gs
			}
		}
		return false
	}
	if callee != nil && callee.Blocks != nil && (callee.Parent() != nil || (c != nil && c.Inline) || vc.sess.autoInline[fullName(callee)]) {
		// inlined body: collect its modifications recursively
		return fr.bodyModifies(callee, heaps, 0)
	}
	if full != "" && vc.sess.isPure(full, pkg) {
		return false
	}
	return true
}

func (fr *Frame) bodyModifies(fn *ssa.Function, heaps map[string]string, depth int) bool {
	if depth > 6 {
		return true
	}
	te := fr.te()
	for _, b := range fn.Blocks {
		for _, ins := range b.Instrs {
			switch ins := ins.(type) {
			case *ssa.Store:
				fr.staticHeapsOfAddr(ins.Addr, derefType(ins.Addr.Type()), heaps)
			case *ssa.MapUpdate:
				mt := ins.Map.Type().Underlying().(*types.Map)
				h, v := te.mapHeaps(mt)
				heaps[h] = te.mapHasSort(mt)
				heaps[v] = te.mapValSort(mt)
				heaps["MapLen"] = arraySort(SInt, SInt)
			case *ssa.Alloc:
				fr.staticHeapsOfType(derefType(ins.Type()), heaps, true)
			case *ssa.MakeSlice:
				fr.staticHeapsOfElems(ins.Type().Underlying().(*types.Slice).Elem(), heaps)
			case *ssa.MakeMap:
				mt := ins.Type().Underlying().(*types.Map)
				h, v := te.mapHeaps(mt)
				heaps[h] = te.mapHasSort(mt)
				heaps[v] = te.mapValSort(mt)
				heaps["MapLen"] = arraySort(SInt, SInt)
			case ssa.CallInstruction:
				if _, isGo := ins.(*ssa.Go); isGo {
					continue
				}
				if fr.callModifies(ins.Common(), heaps) {
					return true
				}
			}
		}
	}
	return false
}

// staticModHeaps over-approximates the heap variables named by a modifies expression using types only.
func (fr *Frame) staticModHeaps(c *Contract, m SExpr, cc *ssa.CallCommon, heaps map[string]string) bool {
	// Evaluate with dummy arguments of the right sorts: only heap names matter.
	sig := cc.Signature()
	var recvT types.Type
	var args []Term
	if cc.IsInvoke() {
		recvT = cc.Value.Type()
		args = append(args, Term{"dummy", fr.te().SortOf(recvT)})
	} else if sig.Recv() != nil {
		recvT = sig.Recv().Type()
	}
	for _, a := range cc.Args {
		args = append(args, Term{"dummy", fr.te().SortOf(a.Type())})
	}
	env := fr.specEnv(fr.cur.clone(), fr.cur)
	env.noLookup = true
	env.dry = true
	fr.bindParams(env, c, sig, recvT, args)
	ts, err := env.evalModTargets(m)
	if err != nil {
		return true
	}
	for _, t := range ts {
		heaps[t.heap] = t.sort
	}
	return false
}

// pureAxioms states the ensures clauses of a heap-independent pure function as universally quantified axioms
// (triggered by the application), so that they are available wherever the function is mentioned, also in specs.
func (fr *Frame) pureAxioms(c *Contract, name string, sig *types.Signature, recvT types.Type, ss []string, rs string) {
	te := fr.te()
	vc := fr.vc
	var binders, bvs []string
	env := &Env{fr: fr, st: vc.entry, old: vc.entry, vars: map[string]Val{}, noLookup: true}
	if p := vc.sess.allTypes[c.Pkg]; p != nil {
		env.pkg = p
	}
	i := 0
	if recvT != nil {
		bv := "q_recv"
		binders = append(binders, fmt.Sprintf("(%s %s)", bv, ss[0]))
		bvs = append(bvs, bv)
		if c.RecvName != "" {
			env.vars[c.RecvName] = Val{T: Term{bv, ss[0]}, Typ: recvT}
		}
		i = 1
	}
	for k := 0; k < sig.Params().Len() && k < len(c.Params) && i+k < len(ss); k++ {
		bv := fmt.Sprintf("q_a%d", k)
		binders = append(binders, fmt.Sprintf("(%s %s)", bv, ss[i+k]))
		bvs = append(bvs, bv)
		env.vars[c.Params[k]] = Val{T: Term{bv, ss[i+k]}, Typ: sig.Params().At(k).Type()}
	}
	if len(binders) != len(ss) {
		return
	}
	ap := Term{app(smtName(name), bvs...), rs}
	if len(c.Results) > 0 {
		env.vars[c.Results[0]] = Val{T: ap, Typ: sig.Results().At(0).Type()}
	}
	nItems := len(vc.items)
	for k, e := range c.Ensures {
		t, err := env.evalBool(e.E)
		if err != nil || len(vc.items) != nItems {
			// state-dependent or not expressible: keep call-site assumption only
			vc.items = vc.items[:nItems]
			continue
		}
		if strings.Contains(t.S, "(forall ") || strings.Contains(t.S, "(exists ") {
			// a quantified definition (e.g. HasSuffix spelled out character by character) as a global axiom feeds the
			// solver's instantiation loop; it is assumed for each call in the code instead (applyContract)
			continue
		}
		if len(binders) == 0 {
			te.pre.Add(fmt.Sprintf("ax:%s#e%d", name, k), fmt.Sprintf("(assert %s)", t.S))
			continue
		}
		te.pre.Add(fmt.Sprintf("ax:%s#e%d", name, k), fmt.Sprintf("(assert (forall (%s) (! %s :pattern (%s))))", strings.Join(binders, " "), t.S, ap.S))
	}
}

// dynContract finds the contract assumed for a dynamic call: of the struct field the function is loaded from, or of its
// named function type.
func (fr *Frame) dynContract(cc *ssa.CallCommon) *Contract {
	specs := fr.vc.sess.specs
	if k := fieldCallKey(cc.Value); k != "" {
		rest := strings.TrimPrefix(k, "fieldcall:")
		if i := strings.LastIndex(rest, "."); i > 0 {
			if j := strings.LastIndex(rest[:i], "."); j > 0 {
				if c := specs.Contracts[rest[:j]+"::fieldcall."+rest[j+1:i]+"_"+rest[i+1:]]; c != nil {
					return c
				}
			}
		}
	}
	if n, ok := types.Unalias(cc.Value.Type()).(*types.Named); ok && n.Obj().Pkg() != nil {
		return specs.Contracts[n.Obj().Pkg().Path()+"::functype."+n.Obj().Name()]
	}
	return nil
}

// fieldCallKey names a dynamic call of a function stored in a struct field: "fieldcall:<pkg>.<Type>.<field>".
func fieldCallKey(v ssa.Value) string {
	u, ok := v.(*ssa.UnOp)
	if !ok || u.Op != token.MUL {
		return ""
	}
	fa, ok := u.X.(*ssa.FieldAddr)
	if !ok {
		return ""
	}
	st := derefType(fa.X.Type())
	n, ok := types.Unalias(st).(*types.Named)
	if !ok || n.Obj().Pkg() == nil {
		return ""
	}
	return "fieldcall:" + n.Obj().Pkg().Path() + "." + n.Obj().Name() + "." + n.Underlying().(*types.Struct).Field(fa.Field).Name()
}

// runCallbacks models a higher-order extern function ("callback p" in its contract): the closure passed for p is run
// once, in an arbitrary state (everything unknown code may change is havocked before it) and with arbitrary arguments,
// under a fresh guard - so every obligation inside the closure body is checked for any invocation - and its effects
// are discarded afterwards (the callee may invoke it any number of times, including never): heaps are havocked again and
// every ghost variable the closure body changed is havocked too.
func (fr *Frame) runCallbacks(c *Contract, sig *types.Signature, recvT types.Type, args []Term, ins ssa.Instruction) {
	vc := fr.vc
	off := 0
	if recvT != nil {
		off = 1
	}
	for _, name := range c.Callbacks {
		idx := -1
		for k, pn := range c.Params {
			if pn == name {
				idx = k
			}
		}
		if idx < 0 || off+idx >= len(args) {
			vc.sess.fatalf("contract %s: callback %q is not a parameter", c.Key, name)
		}
		ci := vc.sess.closureByID[args[off+idx].S]
		if ci == nil || ci.fn.Blocks == nil {
			vc.note("callback argument of " + c.Key + " is not a closure of this function: its body is not examined here")
			continue
		}
		for _, b := range ci.bindVals {
			delete(fr.unescaped, b.S)
		}
		for _, l := range ci.bindLocs {
			if l != nil {
				delete(fr.unescaped, fr.rootOf(l.Base).S)
			}
		}
		savedReach := fr.curReach
		fr.cur = fr.cur.HavocAll(fr.keepList())
		pre := fr.cur.clone()
		guard := vc.fresh("cb", SBool)
		fr.curReach = tAnd(savedReach, guard)
		var cbArgs []Term
		ps := ci.fn.Signature.Params()
		for k := 0; k < ps.Len(); k++ {
			cbArgs = append(cbArgs, fr.havocVal(ps.At(k).Type(), "cbarg"))
		}
		fr.inlineCall(ci.fn, cbArgs, ci, ins)
		post := fr.cur
		fr.curReach = savedReach
		fr.cur = pre
		for k, v := range post.h {
			if strings.HasPrefix(k, "ghost_") && pre.Get(k, v.Sort).S != v.S {
				fr.cur.Havoc(k, v.Sort)
			}
		}
		fr.cur = fr.cur.HavocAll(fr.keepList())
		vc.assumes["callback "+name+" of "+c.Key+": the closure body is checked for one invocation in an arbitrary state; its effects are discarded (any number of invocations)"] = true
	}
}

// ghostsTouched collects the ghost variables updated by the contracts of the functions fn calls (directly, or through
// callees that have no contract of their own and are therefore looked into, up to a small depth).
func (s *Session) ghostsTouched(fn *ssa.Function, depth int, out map[string]bool, seen map[*ssa.Function]bool) {
	if fn == nil || fn.Blocks == nil || depth > 4 || seen[fn] {
		return
	}
	seen[fn] = true
	addC := func(c *Contract) {
		for _, g := range c.Ghosts {
			out[g.Var] = true
		}
	}
	for _, af := range fn.AnonFuncs {
		s.ghostsTouched(af, depth, out, seen)
	}
	for _, b := range fn.Blocks {
		for _, ins := range b.Instrs {
			ci, ok := ins.(ssa.CallInstruction)
			if !ok {
				continue
			}
			cc := ci.Common()
			if cc.IsInvoke() {
				pkg, key := methodKey(cc.Value.Type(), cc.Method.Name())
				if c := s.specs.Contracts[pkg+"::"+key]; c != nil {
					addC(c)
				}
				continue
			}
			if g := cc.StaticCallee(); g != nil {
				if c := s.contractFor(g); c != nil {
					addC(c)
					if c.ModAll && !c.Extern {
						s.ghostsTouched(g, depth+1, out, seen)
					}
				} else {
					s.ghostsTouched(g, depth+1, out, seen)
				}
				continue
			}
			// dynamic call: contracts attached to the field or the named function type
			if k := fieldCallKey(cc.Value); k != "" {
				rest := strings.TrimPrefix(k, "fieldcall:")
				if i := strings.LastIndex(rest, "."); i > 0 {
					if j := strings.LastIndex(rest[:i], "."); j > 0 {
						if c := s.specs.Contracts[rest[:j]+"::fieldcall."+rest[j+1:i]+"_"+rest[i+1:]]; c != nil {
							addC(c)
						}
					}
				}
			}
			if n, ok := types.Unalias(cc.Value.Type()).(*types.Named); ok && n.Obj().Pkg() != nil {
				if c := s.specs.Contracts[n.Obj().Pkg().Path()+"::functype."+n.Obj().Name()]; c != nil {
					addC(c)
				}
			}
		}
	}
}
