package main

import (
	"context"
	"fmt"
	"os"
	"os/exec"
	"path/filepath"
	"strings"
	"sync"
	"time"
)

type SolveResult struct {
	Verdict string // "unsat", "sat", "unknown", "timeout", "error"
	Solver  string
	Time    float64
	Output  string
	File    string
}

type solverSpec struct {
	name string
	args func(file string, timeoutS int, seed int) []string
}

var solvers = []solverSpec{
	{"z3-new", func(f string, t int, seed int) []string {
		return []string{"z3-new", fmt.Sprintf("-T:%d", t), fmt.Sprintf("smt.random_seed=%d", seed), fmt.Sprintf("sat.random_seed=%d", seed), f}
	}},
	{"z3", func(f string, t int, seed int) []string {
		return []string{"z3", fmt.Sprintf("-T:%d", t), fmt.Sprintf("smt.random_seed=%d", seed), f}
	}},
	{"cvc5", func(f string, t int, seed int) []string {
		return []string{"cvc5", fmt.Sprintf("--tlimit=%d", t*1000), "--full-saturate-quant", fmt.Sprintf("--seed=%d", seed), f}
	}},
}

func runSolver(sp solverSpec, file string, timeoutS int, seed int) SolveResult {
	args := sp.args(file, timeoutS, seed)
	ctx, cancel := context.WithTimeout(context.Background(), time.Duration(timeoutS+5)*time.Second)
	defer cancel()
	t0 := time.Now()
	cmd := exec.CommandContext(ctx, args[0], args[1:]...)
	out, _ := cmd.CombinedOutput()
	el := time.Since(t0).Seconds()
	text := string(out)
	first := strings.TrimSpace(strings.SplitN(text, "\n", 2)[0])
	r := SolveResult{Solver: sp.name, Time: el, Output: text, File: file}
	switch {
	case first == "unsat":
		r.Verdict = "unsat"
	case first == "sat":
		r.Verdict = "sat"
	case first == "unknown":
		r.Verdict = "unknown"
	case first == "timeout" || ctx.Err() != nil || strings.Contains(first, "interrupted by timeout"):
		r.Verdict = "timeout"
	default:
		r.Verdict = "error"
	}
	return r
}

// runCover runs a reachability query: E-matching only (a contradiction among the assumptions shows up as unsat quickly),
// then the default configuration for a possible sat answer.
func runCover(file string, timeoutS int, seed int, deep bool) SolveResult {
	sp := solverSpec{"z3-new", func(f string, t int, seed int) []string {
		return []string{"z3-new", fmt.Sprintf("-T:%d", t), "smt.mbqi=false", f}
	}}
	r := runSolver(sp, file, timeoutS, seed)
	if r.Verdict == "unsat" || r.Verdict == "sat" {
		return r
	}
	if !deep {
		return r
	}
	r2 := runSolver(solvers[2], file, timeoutS, seed) // cvc5 enumerative instantiation finds inconsistent axiom sets
	if r2.Verdict == "unsat" || r2.Verdict == "sat" {
		return r2
	}
	return r
}

// discharge tries the solvers on a query file. all=true runs every solver and cross-checks.
func discharge(file string, timeoutS int, seed int, all bool) (SolveResult, []SolveResult) {
	var tried []SolveResult
	r := runSolver(solvers[0], file, timeoutS, seed)
	tried = append(tried, r)
	if !all && (r.Verdict == "unsat" || r.Verdict == "sat") {
		return r, tried
	}
	// race the others
	var wg sync.WaitGroup
	res := make([]SolveResult, len(solvers)-1)
	for i, sp := range solvers[1:] {
		wg.Add(1)
		go func(i int, sp solverSpec) {
			defer wg.Done()
			res[i] = runSolver(sp, file, timeoutS, seed)
		}(i, sp)
	}
	wg.Wait()
	tried = append(tried, res...)
	best := r
	for _, x := range tried {
		if x.Verdict == "unsat" && best.Verdict != "unsat" && best.Verdict != "sat" {
			best = x
		}
		if x.Verdict == "sat" && best.Verdict != "sat" && best.Verdict != "unsat" {
			best = x
		}
	}
	// disagreement check
	hasSat, hasUnsat := false, false
	for _, x := range tried {
		if x.Verdict == "sat" {
			hasSat = true
		}
		if x.Verdict == "unsat" {
			hasUnsat = true
		}
	}
	if hasSat && hasUnsat {
		best.Verdict = "error"
		best.Output = "solver disagreement (sat vs unsat)\n" + best.Output
	}
	return best, tried
}

func writeQuery(dir, name, text string) (string, error) {
	if err := os.MkdirAll(dir, 0o755); err != nil {
		return "", err
	}
	fn := filepath.Join(dir, sanitizeFile(name)+".smt2")
	return fn, os.WriteFile(fn, []byte(text), 0o644)
}

func sanitizeFile(s string) string {
	var b strings.Builder
	for _, c := range s {
		switch {
		case c >= 'a' && c <= 'z', c >= 'A' && c <= 'Z', c >= '0' && c <= '9', c == '_', c == '-', c == '.', c == '@', c == '#':
			b.WriteRune(c)
		default:
			b.WriteByte('_')
		}
	}
	r := b.String()
	if len(r) > 150 {
		r = r[:150]
	}
	return r
}
