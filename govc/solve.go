package main

import (
	"context"
	"fmt"
	"os"
	"os/exec"
	"path/filepath"
	"strings"
	"sync"
	"time"
)

type SolveResult struct {
	Verdict string // "unsat", "sat", "unknown", "timeout", "error"
	Solver  string
	Time    float64
	Output  string
	File    string
}

type solverSpec struct {
	name string
	args func(file string, timeoutS int, seed int) []string
}

// variants of the primary solver raced when the first attempt does not answer: a different seed or arithmetic core often
// decides a query the default configuration loses itself in (all of them are sound provers; any "unsat" counts)
var variants = []solverSpec{
	{"z3-new/s1", func(f string, t int, seed int) []string {
		return []string{"z3-new", fmt.Sprintf("-T:%d", t), fmt.Sprintf("smt.random_seed=%d", seed+17), fmt.Sprintf("sat.random_seed=%d", seed+17), f}
	}},
	{"z3-new/a2", func(f string, t int, seed int) []string {
		return []string{"z3-new", fmt.Sprintf("-T:%d", t), "smt.arith.solver=2", fmt.Sprintf("smt.random_seed=%d", seed), f}
	}},
	{"z3-new/em", func(f string, t int, seed int) []string {
		return []string{"z3-new", fmt.Sprintf("-T:%d", t), "smt.mbqi=false", fmt.Sprintf("smt.random_seed=%d", seed+5), f}
	}},
	{"z3-new/s2", func(f string, t int, seed int) []string {
		return []string{"z3-new", fmt.Sprintf("-T:%d", t), "smt.arith.solver=6", fmt.Sprintf("smt.random_seed=%d", seed+101), f}
	}},
}

var solvers = []solverSpec{
	{"z3-new", func(f string, t int, seed int) []string {
		return []string{"z3-new", fmt.Sprintf("-T:%d", t), fmt.Sprintf("smt.random_seed=%d", seed), fmt.Sprintf("sat.random_seed=%d", seed), f}
	}},
	{"z3", func(f string, t int, seed int) []string {
		return []string{"z3", fmt.Sprintf("-T:%d", t), fmt.Sprintf("smt.random_seed=%d", seed), f}
	}},
	{"cvc5", func(f string, t int, seed int) []string {
		return []string{"cvc5", fmt.Sprintf("--tlimit=%d", t*1000), "--full-saturate-quant", fmt.Sprintf("--seed=%d", seed), f}
	}},
}

func runSolver(sp solverSpec, file string, timeoutS int, seed int) SolveResult {
	return runSolverCtx(context.Background(), sp, file, timeoutS, seed)
}

func runSolverCtx(parent context.Context, sp solverSpec, file string, timeoutS int, seed int) SolveResult {
	args := sp.args(file, timeoutS, seed)
	ctx, cancel := context.WithTimeout(parent, time.Duration(timeoutS+5)*time.Second)
	defer cancel()
	t0 := time.Now()
	cmd := exec.CommandContext(ctx, args[0], args[1:]...)
	out, _ := cmd.CombinedOutput()
	el := time.Since(t0).Seconds()
	text := string(out)
	first := ""
	for _, ln := range strings.Split(text, "\n") {
		ln = strings.TrimSpace(ln)
		if ln == "" || strings.HasPrefix(ln, "WARNING") || strings.HasPrefix(ln, "(warning") {
			continue
		}
		first = ln
		break
	}
	r := SolveResult{Solver: sp.name, Time: el, Output: text, File: file}
	switch {
	case first == "unsat":
		r.Verdict = "unsat"
	case first == "sat":
		r.Verdict = "sat"
	case first == "unknown":
		r.Verdict = "unknown"
	case first == "timeout" || ctx.Err() != nil || strings.Contains(first, "interrupted by timeout"):
		r.Verdict = "timeout"
	default:
		r.Verdict = "error"
	}
	return r
}

// runCover runs a reachability query: E-matching only (a contradiction among the assumptions shows up as unsat quickly),
// then the default configuration for a possible sat answer.
func runCover(file string, timeoutS int, seed int, deep bool) SolveResult {
	sp := solverSpec{"z3-new", func(f string, t int, seed int) []string {
		return []string{"z3-new", fmt.Sprintf("-T:%d", t), "smt.mbqi=false", f}
	}}
	r := runSolver(sp, file, timeoutS, seed)
	if r.Verdict == "unsat" || r.Verdict == "sat" {
		return r
	}
	if !deep {
		return r
	}
	r2 := runSolver(solvers[2], file, timeoutS, seed) // cvc5 enumerative instantiation finds inconsistent axiom sets
	if r2.Verdict == "unsat" || r2.Verdict == "sat" {
		return r2
	}
	return r
}

// discharge tries the solvers on a query file.
// quick (all=false): the primary solver, then - only if it does not answer - a race of the other solvers and of
// variants of the primary; the first definite answer wins.
// thorough (all=true): the primary solver with the full timeout and, in parallel, the two other solvers with a shorter
// one as a cross-check (a sat/unsat disagreement is reported as an error); variants only if nobody answered.
func discharge(file string, timeoutS int, seed int, all bool) (SolveResult, []SolveResult) {
	var tried []SolveResult
	if !all {
		// a short first slice for the primary solver (almost every obligation is decided within it); whatever is
		// still open is raced by all solvers and variants with the full timeout each, so that an obligation one
		// configuration needs 8 s for does not depend on that configuration alone
		first := 3
		if timeoutS < first {
			first = timeoutS
		}
		r := runSolver(solvers[0], file, first, seed)
		tried = append(tried, r)
		if r.Verdict == "unsat" || r.Verdict == "sat" {
			return r, tried
		}
		tried = append(tried, race(file, timeoutS, seed, append(append([]solverSpec{}, solvers...), variants...), true)...)
	} else {
		cross := timeoutS / 4
		if cross < 10 {
			cross = 10
		}
		var wg sync.WaitGroup
		res := make([]SolveResult, len(solvers))
		for i, sp := range solvers {
			wg.Add(1)
			go func(i int, sp solverSpec) {
				defer wg.Done()
				t := cross
				if i == 0 {
					t = timeoutS
				}
				res[i] = runSolver(sp, file, t, seed)
			}(i, sp)
		}
		wg.Wait()
		tried = append(tried, res...)
		decided := false
		for _, x := range res {
			if x.Verdict == "unsat" || x.Verdict == "sat" {
				decided = true
			}
		}
		if !decided {
			tried = append(tried, race(file, timeoutS, seed, variants, true)...)
		}
	}
	best := tried[0]
	for _, x := range tried {
		if x.Verdict == "unsat" && best.Verdict != "unsat" && best.Verdict != "sat" {
			best = x
		}
		if x.Verdict == "sat" && best.Verdict != "sat" && best.Verdict != "unsat" {
			best = x
		}
	}
	hasSat, hasUnsat := false, false
	for _, x := range tried {
		if x.Verdict == "sat" {
			hasSat = true
		}
		if x.Verdict == "unsat" {
			hasUnsat = true
		}
	}
	if hasSat && hasUnsat {
		best.Verdict = "error"
		best.Output = "solver disagreement (sat vs unsat)\n" + best.Output
	}
	return best, tried
}

// race runs the given solver configurations concurrently; with stopEarly the first definite answer cancels the rest.
func race(file string, timeoutS int, seed int, pool []solverSpec, stopEarly bool) []SolveResult {
	var wg sync.WaitGroup
	res := make([]SolveResult, len(pool))
	ctx, cancel := context.WithCancel(context.Background())
	for i, sp := range pool {
		wg.Add(1)
		go func(i int, sp solverSpec) {
			defer wg.Done()
			res[i] = runSolverCtx(ctx, sp, file, timeoutS, seed)
			if strings.HasSuffix(sp.name, "/em") && res[i].Verdict == "sat" {
				res[i].Verdict = "unknown" // without model-based instantiation a "sat" is not a model of the quantified part
			}
			if stopEarly && (res[i].Verdict == "unsat" || res[i].Verdict == "sat") {
				cancel()
			}
		}(i, sp)
	}
	wg.Wait()
	cancel()
	return res
}

func writeQuery(dir, name, text string) (string, error) {
	if err := os.MkdirAll(dir, 0o755); err != nil {
		return "", err
	}
	fn := filepath.Join(dir, sanitizeFile(name)+".smt2")
	return fn, os.WriteFile(fn, []byte(text), 0o644)
}

func sanitizeFile(s string) string {
	var b strings.Builder
	for _, c := range s {
		switch {
		case c >= 'a' && c <= 'z', c >= 'A' && c <= 'Z', c >= '0' && c <= '9', c == '_', c == '-', c == '.', c == '@', c == '#':
			b.WriteRune(c)
		default:
			b.WriteByte('_')
		}
	}
	r := b.String()
	if len(r) > 150 {
		r = r[:150]
	}
	return r
}
