package main

import (
	"fmt"
	"go/token"
	"strings"

	"golang.org/x/tools/go/ssa"
)

type ItemKind int

const (
	ItemDecl ItemKind = iota
	ItemAssume
	ItemOblig
)

type Item struct {
	Kind ItemKind
	Text string // decl: SMT command; assume/oblig: Bool formula
	Name string // obligation name
	Info string
	Pos  token.Position
	Kept bool // obligation is assumed afterwards
	Group string // postcondition of return N ("ret3"): assumed only for later postconditions of the same return
}

// FnVC accumulates the verification conditions of one function under contract.
type FnVC struct {
	sess       *Session
	fn         *ssa.Function
	contract   *Contract
	items      []Item
	declared   map[string]string
	genCounter int
	nameCount  map[string]int
	entry      *State
	imprecise  []string
	assumes    map[string]bool // assumption notes (extern contracts used, etc.)
	externUsed map[string]bool
	obligSeq   map[string]int
	curGroup   string
	allocs     []Term
	inputs     []InputVar // symbolic inputs for model extraction
	outOfSub   []string
	top        *Frame
	obs        []Observable
	instName   string
	lockOnly   bool
	coveredCallsites map[string]bool
	modSet     []modTarget
	modGlobals []string
	seqCache   map[string]Term
	exclAx     map[string]bool
	typedSeen  map[string]bool
}

type InputVar struct {
	Name string // SMT name
	Desc string // human description (parameter name, heap field, ...)
	Sort string
}

func newFnVC(sess *Session, fn *ssa.Function, c *Contract) *FnVC {
	vc := &FnVC{sess: sess, fn: fn, contract: c, declared: map[string]string{}, nameCount: map[string]int{},
		assumes: map[string]bool{}, externUsed: map[string]bool{}, obligSeq: map[string]int{}, coveredCallsites: map[string]bool{}}
	vc.entry = vc.newEntryState()
	defBodies = map[string]string{}
	return vc
}

func (vc *FnVC) emitDecl(text string) {
	vc.items = append(vc.items, Item{Kind: ItemDecl, Text: text})
}

func (vc *FnVC) declOnce(name, sort string) Term {
	if s, ok := vc.declared[name]; ok {
		if s != sort {
			panic(fmt.Sprintf("redeclaration of %s with sort %s (was %s)", name, sort, s))
		}
		return Term{smtName(name), sort}
	}
	vc.declared[name] = sort
	vc.emitDecl(fmt.Sprintf("(declare-const %s %s)", smtName(name), sort))
	return Term{smtName(name), sort}
}

// fresh declares a fresh constant with a name derived from hint.
func (vc *FnVC) fresh(hint, sort string) Term {
	vc.nameCount[hint]++
	n := fmt.Sprintf("%s!%d", hint, vc.nameCount[hint])
	return vc.declOnce(n, sort)
}

// define introduces a named abbreviation for t.
func (vc *FnVC) define(name string, t Term) Term {
	if len(t.S) < 24 {
		return t
	}
	if _, ok := vc.declared[name]; ok {
		vc.nameCount[name]++
		name = fmt.Sprintf("%s!d%d", name, vc.nameCount[name])
	}
	vc.declared[name] = t.Sort
	defBodies[smtName(name)] = t.S
	vc.emitDecl(fmt.Sprintf("(define-fun %s () %s %s)", smtName(name), t.Sort, t.S))
	return Term{smtName(name), t.Sort}
}

func smtName(n string) string {
	ok := true
	for _, c := range n {
		if !(c >= 'a' && c <= 'z' || c >= 'A' && c <= 'Z' || c >= '0' && c <= '9' || c == '_' || c == '.' || c == '!' || c == '@' || c == '$') {
			ok = false
			break
		}
	}
	if ok {
		return n
	}
	return "|" + strings.ReplaceAll(n, "|", "_") + "|"
}

func (vc *FnVC) entryVar(name, sort string) Term {
	_, seen := vc.declared[name+"@0"]
	t := vc.declOnce(name+"@0", sort)
	if !seen {
		if name == "clk" {
			vc.assume(tEq(t, tInt(0)))
		}
		// every reference stored in the heap at entry was allocated before entry (so it differs from anything allocated later)
		vc.assume(vc.sess.te.refBound(name, t, tInt(0)))
	}
	return t
}

func (vc *FnVC) assume(f Term) {
	if f.S == "true" {
		return
	}
	// guarded conjunctions with quantified conjuncts are stored conjunct by conjunct ((=> g (and a b)) as (=> g a),
	// (=> g b)): equivalent, and each universal fact is then visible as such to the goal-directed instantiation
	if strings.Contains(f.S, "(forall ") && (strings.HasPrefix(f.S, "(and ") || strings.HasPrefix(f.S, "(=> ")) {
		for _, p := range splitGuardedConj(f.S, 0) {
			vc.items = append(vc.items, Item{Kind: ItemAssume, Text: p})
		}
		return
	}
	vc.items = append(vc.items, Item{Kind: ItemAssume, Text: f.S})
}

func splitGuardedConj(t string, depth int) []string {
	if depth > 16 || !strings.Contains(t, "(forall ") {
		return []string{t}
	}
	if strings.HasPrefix(t, "(and ") {
		parts := splitSexp(t[1 : len(t)-1])
		var out []string
		for _, p := range parts[1:] {
			out = append(out, splitGuardedConj(p, depth+1)...)
		}
		return out
	}
	if strings.HasPrefix(t, "(=> ") {
		parts := splitSexp(t[1 : len(t)-1])
		if len(parts) == 3 {
			var out []string
			for _, p := range splitGuardedConj(parts[2], depth+1) {
				out = append(out, "(=> "+parts[1]+" "+p+")")
			}
			return out
		}
	}
	return []string{t}
}

// oblige records an obligation: under reach, cond must hold. The obligation is assumed afterwards.
func (vc *FnVC) oblige(name string, reach, cond Term, info string, pos token.Pos) {
	// a conjunction with quantified conjuncts is proved conjunct by conjunct (each one assumed for the next): the
	// solver then has one universal goal at a time to skolemise and instantiate for
	if strings.HasPrefix(cond.S, "(and ") && (strings.Contains(cond.S, "(forall ") || strings.Contains(cond.S, "(exists ")) {
		parts := splitSexp(cond.S[1 : len(cond.S)-1])
		if len(parts) > 2 {
			for k, p := range parts[1:] {
				n := name
				if k > 0 {
					n = fmt.Sprintf("%s~%d", name, k+1)
				}
				vc.oblige(n, reach, Term{p, SBool}, info, pos)
			}
			return
		}
	}
	f := tImp(reach, cond)
	if f.S == "true" {
		// trivially true: still counted as discharged obligation (by simplification)
		vc.items = append(vc.items, Item{Kind: ItemOblig, Text: "true", Name: vc.uniqueOblig(name), Info: info, Pos: vc.sess.pos(pos), Kept: true, Group: vc.curGroup})
		return
	}
	vc.items = append(vc.items, Item{Kind: ItemOblig, Text: f.S, Name: vc.uniqueOblig(name), Info: info, Pos: vc.sess.pos(pos), Kept: true, Group: vc.curGroup})
}

func (vc *FnVC) uniqueOblig(name string) string {
	vc.obligSeq[name]++
	if vc.obligSeq[name] == 1 {
		return name
	}
	return fmt.Sprintf("%s#%d", name, vc.obligSeq[name])
}

func (vc *FnVC) note(s string) {
	for _, x := range vc.imprecise {
		if x == s {
			return
		}
	}
	vc.imprecise = append(vc.imprecise, s)
}

// Query builds the SMT-LIB text for obligation item index i.
func (vc *FnVC) Query(i int, pre *Prelude, getModel bool) string {
	var b strings.Builder
	var earlier []string
	for j := 0; j < i; j++ {
		it := vc.items[j]
		switch it.Kind {
		case ItemDecl:
			b.WriteString(it.Text)
			b.WriteByte('\n')
		case ItemAssume:
			b.WriteString("(assert " + it.Text + ")\n")
			earlier = append(earlier, it.Text)
		case ItemOblig:
			if it.Group != "" && it.Group != vc.items[i].Group {
				// a postcondition proved at another return statement says nothing about this path
				continue
			}
			if it.Kept && it.Text != "true" {
				b.WriteString("(assert " + it.Text + ")\n")
				earlier = append(earlier, it.Text)
			}
		}
	}
	if decls, insts, neg, ok := skolemGoal(vc.items[i].Text, earlier); ok {
		for _, d := range decls {
			b.WriteString(d + "\n")
		}
		for _, a := range insts {
			b.WriteString(a + " ; instance at the goal's skolem constants\n")
		}
		b.WriteString("(assert " + neg + ")\n")
	} else {
		b.WriteString("(assert (not " + vc.items[i].Text + "))\n")
	}
	b.WriteString("(check-sat)\n")
	if getModel {
		b.WriteString("(get-model)\n")
	}
	body := b.String()
	return "(set-option :produce-models true)\n(set-logic ALL)\n" + pre.ForExcl(body, vc.exclAx) + body
}

// GroundQuery is Query with every quantified assumption dropped (the goal is kept): used only to search for candidate
// counterexamples after an obligation failed to discharge; a model of it is a candidate that must be replayed.
func GroundQuery(q string) string {
	lines := strings.Split(q, "\n")
	goal := -1
	for i := len(lines) - 1; i >= 0; i-- {
		if strings.HasPrefix(lines[i], "(assert ") {
			goal = i
			break
		}
	}
	var b strings.Builder
	for i, l := range lines {
		if i != goal && strings.HasPrefix(l, "(assert ") && (strings.Contains(l, "(forall ") || strings.Contains(l, "(exists ")) {
			continue
		}
		b.WriteString(l)
		b.WriteByte('\n')
	}
	return b.String()
}

func (vc *FnVC) instSuffix() string {
	if vc.instName == "" {
		return ""
	}
	if i := strings.Index(vc.instName, "["); i >= 0 {
		return strings.ReplaceAll(vc.instName[i:], modPrefix, "")
	}
	return ""
}
