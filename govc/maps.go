package main

import (
	"fmt"
	"go/types"

	"golang.org/x/tools/go/ssa"
)

func (te *TypeEnv) mapHeaps(mt *types.Map) (has, val string) {
	k := mangle(te.SortOf(mt.Key()))
	v := mangle(te.SortOf(mt.Elem()))
	return "MH_" + k + "_" + v, "MV_" + k + "_" + v
}

func (te *TypeEnv) mapHasSort(mt *types.Map) string {
	return arraySort(SInt, arraySort(te.SortOf(mt.Key()), SBool))
}

func (te *TypeEnv) mapValSort(mt *types.Map) string {
	return arraySort(SInt, arraySort(te.SortOf(mt.Key()), te.SortOf(mt.Elem())))
}

// mapLookup returns (present, stored value) of key k in map m in state st.
func (fr *Frame) mapLookup(st *State, mt *types.Map, m, k Term) (has, val Term) {
	te := fr.te()
	hn, vn := te.mapHeaps(mt)
	h := st.Get(hn, te.mapHasSort(mt))
	v := st.Get(vn, te.mapValSort(mt))
	has = tAnd(tNot(tEq(m, tInt(0))), tSelect(tSelect(h, m), k))
	val = tSelect(tSelect(v, m), k)
	return
}

func (fr *Frame) mapLen(st *State, m Term) Term {
	ml := st.Get("MapLen", arraySort(SInt, SInt))
	return tIte(tEq(m, tInt(0)), tInt(0), tSelect(ml, m))
}

func (fr *Frame) mapStore(st *State, mt *types.Map, m, k, v Term, ins ssa.Instruction) {
	te := fr.te()
	vc := fr.vc
	hn, vn := te.mapHeaps(mt)
	h := st.Get(hn, te.mapHasSort(mt))
	vv := st.Get(vn, te.mapValSort(mt))
	was := tSelect(tSelect(h, m), k)
	ml := st.Get("MapLen", arraySort(SInt, SInt))
	st.Set("MapLen", vc.define("MapLen!s", tStore(ml, m, tIte(was, tSelect(ml, m), tAdd(tSelect(ml, m), tInt(1))))))
	st.Set(hn, vc.define(hn+"!s", tStore(h, m, tStore(tSelect(h, m), k, tTrue))))
	st.Set(vn, vc.define(vn+"!s", tStore(vv, m, tStore(tSelect(vv, m), k, v))))
}

func (fr *Frame) mapDelete(st *State, mt *types.Map, m, k Term) {
	te := fr.te()
	vc := fr.vc
	hn, _ := te.mapHeaps(mt)
	h := st.Get(hn, te.mapHasSort(mt))
	was := tAnd(tNot(tEq(m, tInt(0))), tSelect(tSelect(h, m), k))
	ml := st.Get("MapLen", arraySort(SInt, SInt))
	st.Set("MapLen", vc.define("MapLen!s", tIte(was, tStore(ml, m, tSub(tSelect(ml, m), tInt(1))), ml)))
	st.Set(hn, vc.define(hn+"!s", tIte(tEq(m, tInt(0)), h, tStore(h, m, tStore(tSelect(h, m), k, tFalse)))))
}

func (fr *Frame) execRange(ins *ssa.Range) {
	ri := &rangeInfo{x: ins}
	x := fr.val(ins.X)
	if _, ok := ins.X.Type().Underlying().(*types.Map); ok {
		ri.isMap = true
		ri.mapRef = x
		ri.st = fr.cur.clone()
		mt := ins.X.Type().Underlying().(*types.Map)
		ss := arraySort(fr.te().SortOf(mt.Key()), SBool)
		fr.cur.Set(fr.seenName(ins), Term{fmt.Sprintf("((as const %s) false)", ss), ss})
	} else {
		ri.strVal = x
	}
	fr.ranges[ins] = ri
	fr.vals[ins] = tInt(0)
}

// execNext models one step of a map or string iteration.
// Map: ok is unconstrained; when ok, the key is present in the map now and was present when the range started,
// and was not produced before (ghost seen-set, exposed to invariants as #seen).
func (fr *Frame) execNext(ins *ssa.Next) {
	vc := fr.vc
	ri := fr.ranges[ins.Iter]
	tup := ins.Type().(*types.Tuple)
	ok := vc.fresh(fr.vname(ins)+"_ok", SBool)
	if ins.IsString {
		idx := fr.havocVal(tup.At(1).Type(), fr.vname(ins)+"_i")
		r := fr.havocVal(tup.At(2).Type(), fr.vname(ins)+"_r")
		s := ri.strVal
		vc.assume(tImp(ok, Term{fmt.Sprintf("(and (<= 0 %s) (< %s (s_len %s)) (<= 0 %s) (<= %s 1114111) (=> (< (s_at %s %s) 128) (= %s (s_at %s %s))) (=> (< %s 128) (= %s (s_at %s %s))))",
			idx.S, idx.S, s.S, r.S, r.S, s.S, idx.S, r.S, s.S, idx.S, r.S, r.S, s.S, idx.S), SBool}))
		vc.note("range over string: iteration order/coverage not modelled (each step yields some valid index)")
		fr.tuples[ins] = []Term{ok, idx, r}
		return
	}
	mt := ri.x.(*ssa.Range).X.Type().Underlying().(*types.Map)
	k := fr.havocVal(mt.Key(), fr.vname(ins)+"_k")
	hasNow, valNow := fr.mapLookup(fr.cur, mt, ri.mapRef, k)
	hasStart, _ := fr.mapLookup(ri.st, mt, ri.mapRef, k)
	vc.assume(tImp(ok, tAnd(hasNow, hasStart)))
	v := vc.define(fr.vname(ins)+"_v", valNow)
	fr.assumeTyped(mt.Elem(), v)
	// ghost seen-set
	ks := fr.te().SortOf(mt.Key())
	seenSort := arraySort(ks, SBool)
	seenName := fr.seenName(ins.Iter)
	seen := fr.cur.Get(seenName, seenSort)
	if _, inLoop := fr.loops[ins.Block()]; !inLoop {
		// not at a loop header: no seen tracking
	}
	vc.assume(tImp(ok, tNot(tSelect(seen, k))))
	// exhaustiveness: when !ok every key present at start and still present has been seen
	kq := Term{"k!q", ks}
	hasNowQ, _ := fr.mapLookup(fr.cur, mt, ri.mapRef, kq)
	hasStartQ, _ := fr.mapLookup(ri.st, mt, ri.mapRef, kq)
	vc.assume(tImp(tNot(ok), Term{fmt.Sprintf("(forall ((k!q %s)) (! (=> (and %s %s) (select %s k!q)) :pattern ((select %s k!q))))", ks, hasNowQ.S, hasStartQ.S, seen.S, seen.S), SBool}))
	ri.seen = seen
	fr.cur.Set(seenName, vc.define(seenName+"!s", tIte(ok, tStore(seen, k, tTrue), seen)))
	fr.tuples[ins] = []Term{ok, k, v}
	ri.pos = k
}

func (fr *Frame) seenName(iter ssa.Value) string {
	return fmt.Sprintf("seen_f%d_%s", fr.id, iter.Name())
}
