package main

import (
	"fmt"
	"go/ast"
	"go/parser"
	"go/token"
	"os"
	"path/filepath"
	"regexp"
	"strconv"
	"strings"
)

// Clause is one requires/ensures/invariant expression with its source text.
type Clause struct {
	Name string // optional label
	Text string
	E    SExpr
	Src  string // file:line
}

type LoopSpec struct {
	Invariants []Clause
	Decreases  *Clause
	Complete   bool // the loop is left only through its header condition (no break / return inside): every element is processed
}

type GhostUpdate struct {
	At   string // "entry" | "return"
	Var  string
	Idx  SExpr // optional index for map-like ghost
	Rhs  SExpr
	Text string
}

// Contract is the contract of one function.
type Contract struct {
	Key       string // "(*T).name", "T.name" or "name"
	Pkg       string // import path of the package
	Header    string
	RecvName  string
	Params    []string
	Results   []string
	Requires  []Clause
	Ensures   []Clause
	Modifies  []SExpr
	ModAll    bool
	HasMod    bool
	Loops     map[int]*LoopSpec
	Trusted   bool
	Extern    bool
	Pure      bool // extern pure: result is an uninterpreted function of the arguments
	Inline    bool
	BV        bool
	MayPanic  []Clause
	Nullable  map[string]bool
	Ghosts    []GhostUpdate
	Decreases *Clause
	Src       string
	Unroll    map[int]int
	Props     []string
	Callsites []*CallsiteReq
	Implicit  bool
	CallsitesOnly bool
	TrustedEnsures []Clause // postconditions assumed at call sites but not proved on the body (listed as assumptions)
	Callbacks []string // extern higher-order function: parameters it invokes (zero or more times, with arbitrary arguments)
	Construction bool // called only before the receiver is shared: guarded-field accesses are exempt
}

type SpecFunc struct {
	Name    string
	Params  []SVar
	Result  *STypeE
	Body    SExpr // nil => uninterpreted
	Pkg     string
	Src     string
	Rec     bool
	Trigger bool
}

type Axiom struct {
	NoAssume bool // theorem: proved by induction like a lemma but not handed to the solver as an axiom
	IndVar string // lemma: variable of the induction (proved by base n <= 0 and step n-1 -> n)
	Name  string
	E     SExpr
	Text  string
	Pkg   string
	Lemma bool
	Src   string
}

type GhostVar struct {
	Name string
	Type *STypeE
	Pkg  string
}

type GuardDecl struct {
	Type  string // struct type name
	Field string
	Lock  string // field name of the lock (possibly dotted)
	Pkg   string
}

type CallsiteReq struct {
	Callee string // full name of callee, e.g. "os.Open" or "(*net/http.ServeMux).Handle"
	Params []string
	Req    Clause
	Pkg    string
	Optional bool // callsite-if-present: the clause constrains the call should it (re)appear; matching nothing is fine
}

// SpecSet is everything parsed from contract and extern files.
// SweepDecl demands that every call of the listed callees made anywhere in the package is covered by a callsite clause
// of the enclosing function's contract.
type SweepDecl struct {
	Pkg     string
	Callees []string
	Prop    string
	Src     string
}

type SpecSet struct {
	Sweeps    []*SweepDecl
	Contracts map[string]*Contract // key: pkgpath + "::" + Key
	Funcs     map[string]*SpecFunc // key: name (global namespace)
	Axioms    []*Axiom
	Ghosts    map[string]*GhostVar
	Guards    []*GuardDecl
	Callsites []*CallsiteReq
	PureFuncs map[string]bool // full names of functions with no heap effect and unconstrained result
	Files     []string
}

func NewSpecSet() *SpecSet {
	return &SpecSet{Contracts: map[string]*Contract{}, Funcs: map[string]*SpecFunc{}, Ghosts: map[string]*GhostVar{}, PureFuncs: map[string]bool{}}
}

var reSpecLine = regexp.MustCompile(`^\s*//\s?@ ?(.*)$`)

// LoadContractFile reads //@ lines from a Go contract file (or all lines of a .spec file).
func (ss *SpecSet) LoadContractFile(path string, pkgPath string) error {
	data, err := os.ReadFile(path)
	if err != nil {
		return err
	}
	ss.Files = append(ss.Files, path)
	isSpec := strings.HasSuffix(path, ".spec")
	var lines []string
	var nums []int
	for i, ln := range strings.Split(string(data), "\n") {
		if isSpec {
			t := strings.TrimSpace(ln)
			if t == "" || strings.HasPrefix(t, "//") {
				continue
			}
			lines = append(lines, ln)
			nums = append(nums, i+1)
			continue
		}
		m := reSpecLine.FindStringSubmatch(ln)
		if m == nil {
			continue
		}
		if strings.TrimSpace(m[1]) == "" {
			continue
		}
		lines = append(lines, m[1])
		nums = append(nums, i+1)
	}
	// join continuation lines: a line starting with "\" continues the previous one
	var jl []string
	var jn []int
	for i, l := range lines {
		t := strings.TrimSpace(l)
		if len(jl) > 0 && strings.HasSuffix(strings.TrimSpace(jl[len(jl)-1]), "\\") {
			prev := strings.TrimSpace(jl[len(jl)-1])
			jl[len(jl)-1] = prev[:len(prev)-1] + " " + t
			continue
		}
		jl = append(jl, l)
		jn = append(jn, nums[i])
	}
	var cur *Contract
	base := filepath.Base(path)
	for i, l := range jl {
		src := fmt.Sprintf("%s:%d", base, jn[i])
		t := strings.TrimSpace(l)
		if cm := strings.Index(t, " //"); cm >= 0 && !strings.Contains(t[:cm], "\"") {
			t = strings.TrimSpace(t[:cm])
		}
		word, rest := splitWord(t)
		var err error
		switch word {
		case "package":
			pkgPath = strings.Trim(rest, "\"")
			cur = nil
		case "extern", "func":
			ext := false
			pure := false
			if word == "extern" {
				ext = true
				w2, r2 := splitWord(rest)
				if w2 == "pure" {
					pure = true
					w2, r2 = splitWord(r2)
				}
				if w2 != "func" {
					return fmt.Errorf("%s: expected func after extern", src)
				}
				rest = r2
			}
			cur, err = parseHeader(rest, pkgPath)
			if err != nil {
				return fmt.Errorf("%s: %v", src, err)
			}
			cur.Extern, cur.Pure, cur.Src = ext, pure, src
			k := pkgPath + "::" + cur.Key
			if _, dup := ss.Contracts[k]; dup {
				return fmt.Errorf("%s: duplicate contract for %s", src, k)
			}
			ss.Contracts[k] = cur
		case "requires", "ensures", "trusted-ensures":
			if cur == nil {
				return fmt.Errorf("%s: clause outside function contract", src)
			}
			c, err := parseClause(rest, src)
			if err != nil {
				return err
			}
			if word == "requires" {
				cur.Requires = append(cur.Requires, c)
			} else if word == "trusted-ensures" {
				// a frame fact about a function whose body (verified for other clauses) is too wide to prove it on:
				// assumed where the function is called, never proved, and reported with the assumptions
				cur.TrustedEnsures = append(cur.TrustedEnsures, c)
			} else {
				cur.Ensures = append(cur.Ensures, c)
			}
		case "modifies":
			if cur == nil {
				return fmt.Errorf("%s: clause outside function contract", src)
			}
			cur.HasMod = true
			if strings.TrimSpace(rest) == "*" {
				cur.ModAll = true
				break
			}
			if strings.TrimSpace(rest) == "nothing" {
				break
			}
			for _, part := range splitTop(rest, ',') {
				e, err := ParseSpecExpr(part)
				if err != nil {
					return fmt.Errorf("%s: %v", src, err)
				}
				cur.Modifies = append(cur.Modifies, e)
			}
		case "loop":
			if cur == nil {
				return fmt.Errorf("%s: clause outside function contract", src)
			}
			nstr, r2 := splitWord(rest)
			n, err := strconv.Atoi(nstr)
			if err != nil {
				return fmt.Errorf("%s: bad loop ordinal %q", src, nstr)
			}
			kind, r3 := splitWord(r2)
			ls := cur.Loops[n]
			if ls == nil {
				ls = &LoopSpec{}
				cur.Loops[n] = ls
			}
			switch kind {
			case "invariant":
				c, err := parseClause(r3, src)
				if err != nil {
					return err
				}
				ls.Invariants = append(ls.Invariants, c)
			case "decreases":
				c, err := parseClause(r3, src)
				if err != nil {
					return err
				}
				ls.Decreases = &c
			case "complete":
				ls.Complete = true
			case "unroll":
				k, err := strconv.Atoi(strings.TrimSpace(r3))
				if err != nil {
					return fmt.Errorf("%s: bad unroll count", src)
				}
				cur.Unroll[n] = k
			default:
				return fmt.Errorf("%s: unknown loop clause %q", src, kind)
			}
		case "decreases":
			c, err := parseClause(rest, src)
			if err != nil {
				return err
			}
			cur.Decreases = &c
		case "property":
			if cur == nil {
				return fmt.Errorf("%s: property outside function contract", src)
			}
			for _, p := range strings.FieldsFunc(rest, func(r rune) bool { return r == ',' || r == ' ' }) {
				cur.Props = append(cur.Props, p)
			}
		case "trusted":
			cur.Trusted = true
		case "inline":
			cur.Inline = true
		case "construction":
			cur.Construction = true
		case "callback":
			// the (extern) function calls this function-typed parameter any number of times with arguments of its choosing
			for _, n := range strings.Split(rest, ",") {
				cur.Callbacks = append(cur.Callbacks, strings.TrimSpace(n))
			}
		case "callsites-only":
			// only the call-site clauses of this contract are proved for the body (its other obligations - callee
			// preconditions, safety - are out of scope for this contract and are not generated as claims)
			cur.CallsitesOnly = true
		case "pure-function":
			// in-repository function whose result is a deterministic, heap-independent function of its arguments
			// (assumption, listed); callers and specs may use it as an uninterpreted function constrained by its ensures
			cur.Pure = true
		case "mode":
			cur.BV = strings.TrimSpace(rest) == "bv"
		case "may_panic":
			_, r2 := splitWord(rest) // "when"
			c, err := parseClause(r2, src)
			if err != nil {
				return err
			}
			cur.MayPanic = append(cur.MayPanic, c)
		case "nullable":
			for _, n := range strings.Split(rest, ",") {
				cur.Nullable[strings.TrimSpace(n)] = true
			}
		case "ghost":
			w2, r2 := splitWord(rest)
			switch w2 {
			case "var":
				name, r3 := splitWord(r2)
				te, _, err := ParseTypeExpr(r3)
				if err != nil {
					return fmt.Errorf("%s: %v", src, err)
				}
				ss.Ghosts[name] = &GhostVar{Name: name, Type: te, Pkg: pkgPath}
			case "at":
				if cur == nil {
					return fmt.Errorf("%s: ghost update outside function contract", src)
				}
				at, r3 := splitWord(r2)
				at = strings.TrimSuffix(at, ":")
				r3 = strings.TrimPrefix(strings.TrimSpace(r3), ":")
				eq := strings.Index(r3, " = ")
				if eq < 0 {
					return fmt.Errorf("%s: ghost update needs 'x = e'", src)
				}
				lhs, err := ParseSpecExpr(r3[:eq])
				if err != nil {
					return fmt.Errorf("%s: %v", src, err)
				}
				rhs, err := ParseSpecExpr(r3[eq+3:])
				if err != nil {
					return fmt.Errorf("%s: %v", src, err)
				}
				gu := GhostUpdate{At: at, Rhs: rhs, Text: strings.TrimSpace(r3)}
				switch l := lhs.(type) {
				case *SIdent:
					gu.Var = l.Name
				case *SIndex:
					id, ok := l.X.(*SIdent)
					if !ok {
						return fmt.Errorf("%s: bad ghost lhs", src)
					}
					gu.Var, gu.Idx = id.Name, l.I
				default:
					return fmt.Errorf("%s: bad ghost lhs", src)
				}
				cur.Ghosts = append(cur.Ghosts, gu)
			default:
				return fmt.Errorf("%s: unknown ghost directive %q", src, w2)
			}
		case "define", "declare":
			cur = nil
			sf, err := parseSpecFunc(rest, word == "define", pkgPath, src)
			if err != nil {
				return fmt.Errorf("%s: %v", src, err)
			}
			if _, dup := ss.Funcs[sf.Name]; dup {
				return fmt.Errorf("%s: duplicate spec function %s", src, sf.Name)
			}
			ss.Funcs[sf.Name] = sf
		case "axiom", "lemma", "theorem":
			cur = nil
			colon := strings.Index(rest, ":")
			if colon < 0 {
				return fmt.Errorf("%s: axiom needs 'name: expr'", src)
			}
			e, err := ParseSpecExpr(rest[colon+1:])
			if err != nil {
				return fmt.Errorf("%s: %v", src, err)
			}
			ax := &Axiom{Name: strings.TrimSpace(rest[:colon]), E: e, Text: strings.TrimSpace(rest[colon+1:]), Pkg: pkgPath, Lemma: word != "axiom", NoAssume: word == "theorem", Src: src}
			if hf := strings.Fields(ax.Name); len(hf) == 3 && hf[1] == "induction" {
				ax.Name, ax.IndVar = hf[0], hf[2]
			} else if len(hf) != 1 {
				return fmt.Errorf("%s: bad axiom/lemma header %q", src, ax.Name)
			}
			if ax.Lemma && ax.IndVar == "" {
				return fmt.Errorf("%s: lemma %s needs 'induction <var>' (lemmas are proved, never assumed)", src, ax.Name)
			}
			ss.Axioms = append(ss.Axioms, ax)
		case "guarded":
			cur = nil
			// guarded T.f by mu
			parts := strings.Fields(rest)
			if len(parts) != 3 || parts[1] != "by" {
				return fmt.Errorf("%s: guarded T.f by lock", src)
			}
			tf := strings.SplitN(parts[0], ".", 2)
			if len(tf) != 2 {
				return fmt.Errorf("%s: guarded T.f by lock", src)
			}
			ss.Guards = append(ss.Guards, &GuardDecl{Type: tf[0], Field: tf[1], Lock: parts[2], Pkg: pkgPath})
		case "sweep":
			// sweep <PROP> callee1, callee2, ...
			cur = nil
			prop, r2 := splitWord(rest)
			sd := &SweepDecl{Pkg: pkgPath, Prop: prop, Src: src}
			for _, n := range strings.Split(r2, ",") {
				if n = strings.TrimSpace(n); n != "" {
					sd.Callees = append(sd.Callees, n)
				}
			}
			ss.Sweeps = append(ss.Sweeps, sd)
		case "callsite", "package-callsite", "callsite-if-present":
			owner := cur
			if word == "package-callsite" {
				owner = nil
				cur = nil
			}
			if !strings.Contains(rest, " requires ") {
				return fmt.Errorf("%s: callsite callee(params) requires expr", src)
			}
			if owner == nil {
				cur = nil
			}
			// callsite <callee full name>(p1, p2) requires expr
			ri := strings.Index(rest, " requires ")
			if ri < 0 {
				return fmt.Errorf("%s: callsite callee(params) requires expr", src)
			}
			head := strings.TrimSpace(rest[:ri])
			var params []string
			if lp := strings.LastIndex(head, "("); lp >= 0 && strings.HasSuffix(head, ")") && !strings.HasPrefix(head[lp:], "(*") {
				for _, p := range strings.Split(head[lp+1:len(head)-1], ",") {
					params = append(params, strings.TrimSpace(p))
				}
				head = strings.TrimSpace(head[:lp])
			}
			c, err := parseClause(rest[ri+len(" requires "):], src)
			if err != nil {
				return err
			}
			cr := &CallsiteReq{Callee: head, Params: params, Req: c, Pkg: pkgPath, Optional: word == "callsite-if-present"}
			if owner != nil {
				owner.Callsites = append(owner.Callsites, cr)
			} else {
				ss.Callsites = append(ss.Callsites, cr)
			}
		case "pure":
			cur = nil
			for _, n := range strings.Split(rest, ",") {
				n = strings.TrimSpace(n)
				if n != "" {
					ss.PureFuncs[n] = true
				}
			}
		default:
			return fmt.Errorf("%s: unknown directive %q", src, word)
		}
	}
	return nil
}

func splitWord(s string) (string, string) {
	s = strings.TrimSpace(s)
	i := strings.IndexAny(s, " \t")
	if i < 0 {
		return s, ""
	}
	return s[:i], strings.TrimSpace(s[i+1:])
}

func splitTop(s string, sep byte) []string {
	var out []string
	d := 0
	last := 0
	for i := 0; i < len(s); i++ {
		switch s[i] {
		case '(', '[', '{':
			d++
		case ')', ']', '}':
			d--
		case sep:
			if d == 0 {
				out = append(out, s[last:i])
				last = i + 1
			}
		}
	}
	out = append(out, s[last:])
	return out
}

var reLabel = regexp.MustCompile(`^([A-Za-z_][A-Za-z0-9_\-]*):\s+(.*)$`)

func parseClause(text, src string) (Clause, error) {
	text = strings.TrimSpace(text)
	c := Clause{Text: text, Src: src}
	if m := reLabel.FindStringSubmatch(text); m != nil && !strings.HasPrefix(m[2], ":") {
		c.Name = m[1]
		text = m[2]
		c.Text = text
	}
	e, err := ParseSpecExpr(text)
	if err != nil {
		return c, fmt.Errorf("%s: %v", src, err)
	}
	c.E = e
	return c, nil
}

// parseHeader parses "(<recv>) Name(params) (results)" (after the func keyword) using go/parser.
func parseHeader(h string, pkgPath string) (*Contract, error) {
	h = strings.ReplaceAll(h, "$", "_DOLLAR_")
	src := "package p\nfunc " + h + "\n"
	fset := token.NewFileSet()
	f, err := parser.ParseFile(fset, "h.go", src, 0)
	if err != nil {
		return nil, fmt.Errorf("bad contract header %q: %v", h, err)
	}
	fd, ok := f.Decls[0].(*ast.FuncDecl)
	if !ok {
		return nil, fmt.Errorf("bad contract header %q", h)
	}
	c := &Contract{Header: h, Pkg: pkgPath, Loops: map[int]*LoopSpec{}, Nullable: map[string]bool{}, Unroll: map[int]int{}}
	key := fd.Name.Name
	if fd.Recv != nil && len(fd.Recv.List) == 1 {
		r := fd.Recv.List[0]
		if len(r.Names) > 0 {
			c.RecvName = r.Names[0].Name
		}
		key = recvString(r.Type) + "." + key
	}
	c.Key = strings.ReplaceAll(key, "_DOLLAR_", "$")
	c.Header = strings.ReplaceAll(c.Header, "_DOLLAR_", "$")
	anon := 0
	for _, p := range fd.Type.Params.List {
		if len(p.Names) == 0 {
			c.Params = append(c.Params, fmt.Sprintf("_p%d", anon))
			anon++
		}
		for _, n := range p.Names {
			c.Params = append(c.Params, n.Name)
		}
	}
	if fd.Type.Results != nil {
		k := 0
		for _, p := range fd.Type.Results.List {
			if len(p.Names) == 0 {
				c.Results = append(c.Results, fmt.Sprintf("r%d", k))
				k++
			}
			for _, n := range p.Names {
				c.Results = append(c.Results, n.Name)
				k++
			}
		}
	}
	return c, nil
}

func recvString(e ast.Expr) string {
	switch e := e.(type) {
	case *ast.StarExpr:
		return "(*" + recvBase(e.X) + ")"
	}
	return recvBase(e)
}

func recvBase(e ast.Expr) string {
	switch e := e.(type) {
	case *ast.Ident:
		return e.Name
	case *ast.IndexExpr:
		return recvBase(e.X)
	case *ast.IndexListExpr:
		return recvBase(e.X)
	case *ast.ParenExpr:
		return recvBase(e.X)
	}
	return "?"
}

// parseSpecFunc parses "name(x T, y U) R = body" or "name(x T) R".
func parseSpecFunc(s string, define bool, pkg, src string) (*SpecFunc, error) {
	lp := strings.Index(s, "(")
	if lp < 0 {
		return nil, fmt.Errorf("spec function needs parameter list")
	}
	name := strings.TrimSpace(s[:lp])
	// find matching paren
	d := 0
	rp := -1
	for i := lp; i < len(s); i++ {
		if s[i] == '(' {
			d++
		} else if s[i] == ')' {
			d--
			if d == 0 {
				rp = i
				break
			}
		}
	}
	if rp < 0 {
		return nil, fmt.Errorf("unbalanced parens")
	}
	sf := &SpecFunc{Name: name, Pkg: pkg, Src: src}
	if strings.HasPrefix(name, "rec ") {
		sf.Rec = true
		sf.Name = strings.TrimSpace(name[4:])
	}
	ps := strings.TrimSpace(s[lp+1 : rp])
	if ps != "" {
		var pending []string
		for _, part := range splitTop(ps, ',') {
			part = strings.TrimSpace(part)
			n, r := splitWord(part)
			if r == "" {
				pending = append(pending, n)
				continue
			}
			te, _, err := ParseTypeExpr(r)
			if err != nil {
				return nil, err
			}
			for _, pn := range pending {
				sf.Params = append(sf.Params, SVar{pn, te})
			}
			pending = nil
			sf.Params = append(sf.Params, SVar{n, te})
		}
		if len(pending) > 0 {
			return nil, fmt.Errorf("parameter without type: %v", pending)
		}
	}
	rest := strings.TrimSpace(s[rp+1:])
	var body string
	if define {
		eq := strings.Index(rest, "=")
		if eq < 0 {
			return nil, fmt.Errorf("define needs '= body'")
		}
		body = rest[eq+1:]
		rest = strings.TrimSpace(rest[:eq])
	}
	te, _, err := ParseTypeExpr(rest)
	if err != nil {
		return nil, err
	}
	sf.Result = te
	if define {
		e, err := ParseSpecExpr(body)
		if err != nil {
			return nil, err
		}
		sf.Body = e
	}
	return sf, nil
}
