package main

import (
	"fmt"
	"sort"
	"strings"
)

// Goal skolemisation and same-name instantiation.
//
// A goal of the shape  R => forall xs. B  is proved by refuting  R and not B[xs := sk]  for fresh constants sk
// (equisatisfiable).  In addition every quantified assumption  R2 => forall ys. C  whose bound variables ys all occur
// among xs (same name, same sort) is instantiated at the same constants: the instance is a consequence of the
// assumption, so adding it is sound, and it spares the solver the search for exactly the instantiation that
// invariant-preservation and frame arguments need (contracts name the index of "the same" element the same way).

type qform struct {
	reach   string
	binders [][2]string // name, sort
	body    string
}

// parseQForm recognises  (forall (..) B),  (=> R (forall (..) B))  with B optionally wrapped in (! B :pattern ..).
func parseQForm(t string) (qform, bool) {
	var q qform
	t = strings.TrimSpace(t)
	var guards []string
	for strings.HasPrefix(t, "(=> ") {
		parts := splitSexp(t[1 : len(t)-1])
		if len(parts) != 3 {
			return q, false
		}
		guards = append(guards, parts[1])
		t = parts[2]
	}
	if len(guards) == 1 {
		q.reach = guards[0]
	} else if len(guards) > 1 {
		q.reach = "(and " + strings.Join(guards, " ") + ")"
	}
	if !strings.HasPrefix(t, "(forall ") {
		return q, false
	}
	parts := splitSexp(t[1 : len(t)-1])
	if len(parts) != 3 {
		return q, false
	}
	for _, b := range splitSexp(parts[1][1 : len(parts[1])-1]) {
		bs := splitSexp(b[1 : len(b)-1])
		if len(bs) != 2 {
			return q, false
		}
		q.binders = append(q.binders, [2]string{bs[0], bs[1]})
	}
	body := parts[2]
	if strings.HasPrefix(body, "(! ") {
		bp := splitSexp(body[1 : len(body)-1])
		if len(bp) >= 2 {
			body = bp[1]
		}
	}
	q.body = body
	return q, true
}

// substTokens replaces whole symbol tokens of s according to m.
func substTokens(s string, m map[string]string) string {
	var b strings.Builder
	i := 0
	for i < len(s) {
		c := s[i]
		switch {
		case c == '(' || c == ')' || c == ' ' || c == '\n' || c == '\t':
			b.WriteByte(c)
			i++
		case c == '|':
			j := strings.IndexByte(s[i+1:], '|')
			if j < 0 {
				b.WriteString(s[i:])
				return b.String()
			}
			tok := s[i : i+j+2]
			if r, ok := m[tok]; ok {
				b.WriteString(r)
			} else {
				b.WriteString(tok)
			}
			i += j + 2
		default:
			j := i
			for j < len(s) && s[j] != '(' && s[j] != ')' && s[j] != ' ' && s[j] != '\n' && s[j] != '\t' {
				j++
			}
			tok := s[i:j]
			if r, ok := m[tok]; ok {
				b.WriteString(r)
			} else {
				b.WriteString(tok)
			}
			i = j
		}
	}
	return b.String()
}

// skolemPositive replaces every universally quantified subformula in a positive position of t (consequents, conjuncts,
// disjuncts) by its body at fresh constants.  Refuting the result refutes t's negation: a positive forall becomes an
// existential under the negation of the goal.
func skolemPositive(t string, sub map[string]string, sorts map[string]string, decls *[]string, n *int) string {
	t = strings.TrimSpace(t)
	if !strings.HasPrefix(t, "(") || !strings.Contains(t, "(forall ") {
		return t
	}
	parts := splitSexp(t[1 : len(t)-1])
	if len(parts) == 0 {
		return t
	}
	switch parts[0] {
	case "=>":
		if len(parts) != 3 {
			return t
		}
		return "(=> " + parts[1] + " " + skolemPositive(parts[2], sub, sorts, decls, n) + ")"
	case "and", "or":
		out := []string{parts[0]}
		for _, p := range parts[1:] {
			out = append(out, skolemPositive(p, sub, sorts, decls, n))
		}
		return "(" + strings.Join(out, " ") + ")"
	case "!":
		if len(parts) >= 2 {
			return skolemPositive(parts[1], sub, sorts, decls, n)
		}
	case "forall":
		if len(parts) != 3 {
			return t
		}
		local := map[string]string{}
		for _, b := range splitSexp(parts[1][1 : len(parts[1])-1]) {
			bs := splitSexp(b[1 : len(b)-1])
			if len(bs) != 2 {
				return t
			}
			*n++
			sk := fmt.Sprintf("sk!%s!%d", strings.Trim(bs[0], "|"), *n)
			local[bs[0]] = sk
			if _, dup := sub[bs[0]]; !dup {
				sub[bs[0]] = sk
				sorts[bs[0]] = bs[1]
			}
			*decls = append(*decls, fmt.Sprintf("(declare-const %s %s)", sk, bs[1]))
		}
		body := parts[2]
		if strings.HasPrefix(body, "(! ") {
			bp := splitSexp(body[1 : len(body)-1])
			if len(bp) >= 2 {
				body = bp[1]
			}
		}
		// an inner quantifier that rebinds one of these names would be captured by a textual substitution
		for name := range local {
			if strings.Contains(body, "(("+name+" ") || strings.Contains(body, " ("+name+" ") {
				return t
			}
		}
		return skolemPositive(substTokens(body, local), sub, sorts, decls, n)
	}
	return t
}

// witnessExists replaces every existential in a positive position of an assumed formula by its body at a fresh witness
// constant (an assumed "exists k. P" yields a k), and records the witnesses per bound-variable name.
func witnessExists(t string, decls *[]string, wits map[string][][2]string, n *int) string {
	t = strings.TrimSpace(t)
	if !strings.HasPrefix(t, "(") || !strings.Contains(t, "(exists ") {
		return t
	}
	parts := splitSexp(t[1 : len(t)-1])
	if len(parts) == 0 {
		return t
	}
	switch parts[0] {
	case "=>":
		if len(parts) != 3 {
			return t
		}
		return "(=> " + parts[1] + " " + witnessExists(parts[2], decls, wits, n) + ")"
	case "and", "or":
		out := []string{parts[0]}
		for _, p := range parts[1:] {
			out = append(out, witnessExists(p, decls, wits, n))
		}
		return "(" + strings.Join(out, " ") + ")"
	case "exists":
		if len(parts) != 3 {
			return t
		}
		local := map[string]string{}
		for _, b := range splitSexp(parts[1][1 : len(parts[1])-1]) {
			bs := splitSexp(b[1 : len(b)-1])
			if len(bs) != 2 {
				return t
			}
			*n++
			w := fmt.Sprintf("wit!%s!%d", strings.Trim(bs[0], "|"), *n)
			local[bs[0]] = w
			wits[bs[0]] = append(wits[bs[0]], [2]string{w, bs[1]})
			*decls = append(*decls, fmt.Sprintf("(declare-const %s %s)", w, bs[1]))
		}
		body := parts[2]
		for name := range local {
			if strings.Contains(body, "(("+name+" ") || strings.Contains(body, " ("+name+" ") {
				return t
			}
		}
		return witnessExists(substTokens(body, local), decls, wits, n)
	}
	return t
}

// offerWitnesses strengthens nothing: every existential in a positive position of the goal is replaced by the equivalent
// "body at a known witness, or ... , or the existential itself", naming the candidates the assumptions provide.
func offerWitnesses(t string, wits map[string][][2]string) string {
	t = strings.TrimSpace(t)
	if !strings.HasPrefix(t, "(") || !strings.Contains(t, "(exists ") {
		return t
	}
	parts := splitSexp(t[1 : len(t)-1])
	if len(parts) == 0 {
		return t
	}
	switch parts[0] {
	case "=>":
		if len(parts) != 3 {
			return t
		}
		return "(=> " + parts[1] + " " + offerWitnesses(parts[2], wits) + ")"
	case "and", "or":
		out := []string{parts[0]}
		for _, p := range parts[1:] {
			out = append(out, offerWitnesses(p, wits))
		}
		return "(" + strings.Join(out, " ") + ")"
	case "exists":
		if len(parts) != 3 {
			return t
		}
		bs := splitSexp(parts[1][1 : len(parts[1])-1])
		if len(bs) != 1 {
			return t
		}
		b := splitSexp(bs[0][1 : len(bs[0])-1])
		if len(b) != 2 {
			return t
		}
		if strings.Contains(parts[2], "(("+b[0]+" ") || strings.Contains(parts[2], " ("+b[0]+" ") {
			return t
		}
		alts := []string{}
		for _, w := range wits[b[0]] {
			if w[1] == b[1] && len(alts) < 8 {
				alts = append(alts, substTokens(parts[2], map[string]string{b[0]: w[0]}))
			}
		}
		if len(alts) == 0 {
			return t
		}
		return "(or " + strings.Join(alts, " ") + " " + t + ")"
	}
	return t
}

// skolemGoal returns declarations, extra instance assertions and the negated goal for a goal with universally
// quantified subformulas in positive positions; ok is false when there is none.
func skolemGoal(goal string, earlier []string) (decls []string, insts []string, neg string, ok bool) {
	if !strings.Contains(goal, "(forall ") {
		return nil, nil, "", false
	}
	sub := map[string]string{}
	sorts := map[string]string{}
	n := 0
	pg := skolemPositive(goal, sub, sorts, &decls, &n)
	if len(decls) == 0 {
		return nil, nil, "", false
	}
	wits := map[string][][2]string{}
	wn := 0
	defer func() {
		if ok {
			neg = "(not " + offerWitnesses(pg, wits) + ")"
		}
	}()
	for _, a := range earlier {
		if !strings.Contains(a, "(forall ") {
			continue
		}
		aq, ok := parseQForm(a)
		if !ok || len(aq.binders) == 0 {
			continue
		}
		match := true
		for _, b := range aq.binders {
			if s, ok := sorts[b[0]]; !ok || s != b[1] {
				match = false
			}
		}
		if !match {
			continue
		}
		rebind := false
		for _, b := range aq.binders {
			if strings.Contains(aq.body, "(("+b[0]+" ") || strings.Contains(aq.body, " ("+b[0]+" ") {
				rebind = true
			}
		}
		if rebind {
			continue
		}
		ib := witnessExists(substTokens(aq.body, sub), &decls, wits, &wn)
		if aq.reach != "" {
			insts = append(insts, fmt.Sprintf("(assert (=> %s %s))", aq.reach, ib))
		} else {
			insts = append(insts, fmt.Sprintf("(assert %s)", ib))
		}
	}
	// second round: facts whose pattern is the always-true marker mark(.) are invisible to the solver's own
	// instantiation; give them every constant introduced so far (goal constants and witnesses) of the right sort
	var consts [][2]string
	for name, sk := range sub {
		consts = append(consts, [2]string{sk, sorts[name]})
		if sorts[name] == "Int" {
			// neighbours of an index named by the goal: shifted-by-one facts (removal, insertion) need them
			consts = append(consts, [2]string{"(+ " + sk + " 1)", "Int"}, [2]string{"(- " + sk + " 1)", "Int"})
		}
	}
	for _, ws := range wits {
		consts = append(consts, ws...)
	}
	sort.Slice(consts, func(i, j int) bool { return consts[i][0] < consts[j][0] })
	seen := map[string]bool{}
	for _, a := range insts {
		seen[a] = true
	}
	for _, a := range earlier {
		if !strings.Contains(a, ":pattern ((sf_mark ") {
			continue
		}
		aq, ok := parseQForm(a)
		if !ok || len(aq.binders) != 1 {
			continue
		}
		b := aq.binders[0]
		if strings.Contains(aq.body, "(("+b[0]+" ") || strings.Contains(aq.body, " ("+b[0]+" ") {
			continue
		}
		for _, c := range consts {
			if c[1] != b[1] {
				continue
			}
			ib := witnessExists(substTokens(aq.body, map[string]string{b[0]: c[0]}), &decls, wits, &wn)
			line := fmt.Sprintf("(assert %s)", ib)
			if aq.reach != "" {
				line = fmt.Sprintf("(assert (=> %s %s))", aq.reach, ib)
			}
			if !seen[line] && len(insts) < 400 {
				seen[line] = true
				insts = append(insts, line)
			}
		}
	}
	return decls, insts, "", true
}
