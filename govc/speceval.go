package main

import (
	"fmt"
	"go/constant"
	"go/token"
	"go/types"
	"math/big"
	"strings"

	"golang.org/x/tools/go/ssa"
)

// Val is a spec-level value: an SMT term with an optional Go type and location.
type Val struct {
	T   Term
	Typ types.Type // nil for pure spec values (mathematical ints, bools, ...)
	Loc *Loc
}

// Env is the evaluation environment of spec expressions.
type Env struct {
	fr        *Frame
	st        *State
	old       *State
	vars      map[string]Val
	atBlock   *ssa.BasicBlock
	atIdx     int
	noLookup  bool // do not resolve source-level local names
	entryOnly bool
	dry       bool
	pkg       *types.Package
	depth     int
	curSt     *State
	resIdx    int
	quantDepth int
	bound      []string // SMT names of the variables bound by enclosing quantifiers
	typeArgs   map[string]types.Type // type parameters of a generic function's instantiation (T -> its argument)
}

func (fr *Frame) specEnv(st, old *State) *Env {
	env := &Env{fr: fr, st: st, old: old, vars: map[string]Val{}}
	if fr.fn == nil {
		return env
	}
	env.typeArgs = typeArgsOf(fr.fn)
	if fr.calleeTypeArgs != nil {
		env.typeArgs = fr.calleeTypeArgs
	}
	if fr.fn.Pkg != nil {
		env.pkg = fr.fn.Pkg.Pkg
	} else if o := fr.fn.Origin(); o != nil && o.Pkg != nil {
		env.pkg = o.Pkg.Pkg
	}
	return env
}

// typeArgsOf maps the type-parameter names of a generic function to the type arguments of this instantiation.
func typeArgsOf(fn *ssa.Function) map[string]types.Type {
	if fn == nil || len(fn.TypeArgs()) == 0 {
		return nil
	}
	o := fn.Origin()
	if o == nil {
		return nil
	}
	tps := o.TypeParams()
	if tps == nil || tps.Len() != len(fn.TypeArgs()) {
		return nil
	}
	m := map[string]types.Type{}
	for i := 0; i < tps.Len(); i++ {
		m[tps.At(i).Obj().Name()] = fn.TypeArgs()[i]
	}
	return m
}

func (env *Env) child() *Env {
	n := *env
	n.vars = map[string]Val{}
	for k, v := range env.vars {
		n.vars[k] = v
	}
	return &n
}

func (env *Env) te() *TypeEnv { return env.fr.te() }

func (env *Env) evalBool(e SExpr) (Term, error) {
	v, err := env.eval(e)
	if err != nil {
		return Term{}, err
	}
	if v.T.Sort != SBool {
		return Term{}, fmt.Errorf("expected boolean, got %s in %s", v.T.Sort, e)
	}
	return v.T, nil
}

var universeInts = map[string]bool{"int": true, "int8": true, "int16": true, "int32": true, "int64": true, "uint": true, "uint8": true, "uint16": true, "uint32": true, "uint64": true, "byte": true, "rune": true, "uintptr": true}

func (env *Env) resolveType(te *STypeE) (types.Type, error) {
	switch te.Kind {
	case "ptr":
		e, err := env.resolveType(te.Elem)
		if err != nil {
			return nil, err
		}
		return types.NewPointer(e), nil
	case "slice":
		e, err := env.resolveType(te.Elem)
		if err != nil {
			return nil, err
		}
		return types.NewSlice(e), nil
	case "array":
		e, err := env.resolveType(te.Elem)
		if err != nil {
			return nil, err
		}
		n, _ := new(big.Int).SetString(te.N, 10)
		return types.NewArray(e, n.Int64()), nil
	case "map":
		k, err := env.resolveType(te.Key)
		if err != nil {
			return nil, err
		}
		e, err := env.resolveType(te.Elem)
		if err != nil {
			return nil, err
		}
		return types.NewMap(k, e), nil
	}
	if te.Pkg == "" {
		if t, ok := env.typeArgs[te.Name]; ok {
			return t, nil
		}
		if te.Name == "any" {
			return types.Universe.Lookup("any").Type(), nil
		}
		if te.Name == "set" || te.Name == "mathint" {
			return nil, nil
		}
		if o := types.Universe.Lookup(te.Name); o != nil {
			if tn, ok := o.(*types.TypeName); ok {
				return tn.Type(), nil
			}
		}
		if env.pkg != nil {
			if o := env.pkg.Scope().Lookup(te.Name); o != nil {
				if tn, ok := o.(*types.TypeName); ok {
					return tn.Type(), nil
				}
			}
		}
		// search all loaded packages of the session for an unambiguous type name
		if t := env.fr.vc.sess.findTypeByName(te.Name); t != nil {
			return t, nil
		}
		return nil, fmt.Errorf("unknown type %s", te.Name)
	}
	if p := env.fr.vc.sess.findPackageByName(env.pkg, te.Pkg); p != nil {
		if o := p.Scope().Lookup(te.Name); o != nil {
			if tn, ok := o.(*types.TypeName); ok {
				return tn.Type(), nil
			}
		}
	}
	return nil, fmt.Errorf("unknown type %s.%s", te.Pkg, te.Name)
}

func (env *Env) sortOfSpecType(te *STypeE, t types.Type) string {
	if t == nil {
		return SInt
	}
	if te != nil && te.Kind == "map" {
		// ghost maps are total SMT arrays
		k, _ := env.resolveType(te.Key)
		e, _ := env.resolveType(te.Elem)
		return arraySort(env.sortOfSpecType(te.Key, k), env.sortOfSpecType(te.Elem, e))
	}
	return env.te().SortOf(t)
}

// ghostType resolves the declared type of a ghost variable in the package that declares it.
func (env *Env) ghostType(gv *GhostVar) (types.Type, string, error) {
	sub := *env
	if p := env.fr.vc.sess.typesPkg(gv.Pkg); p != nil {
		sub.pkg = p
	}
	t, err := sub.resolveType(gv.Type)
	if err != nil {
		return nil, "", err
	}
	return t, sub.sortOfSpecType(gv.Type, t), nil
}

func isSpecMap(te *STypeE) bool { return te != nil && te.Kind == "map" }

func (env *Env) eval(e SExpr) (Val, error) {
	env.depth++
	defer func() { env.depth-- }()
	if env.depth > 200 {
		return Val{}, fmt.Errorf("spec expression too deep (recursive define?)")
	}
	switch e := e.(type) {
	case *SNum:
		s := strings.ReplaceAll(e.Val, "_", "")
		n, ok := new(big.Int).SetString(s, 0)
		if !ok {
			return Val{}, fmt.Errorf("bad number %s", e.Val)
		}
		return Val{T: Term{bigTerm(n), SInt}}, nil
	case *SStrLit:
		return Val{T: env.fr.vc.sess.strLit(e.Val), Typ: types.Typ[types.String]}, nil
	case *SIdent:
		return env.evalIdent(e.Name)
	case *SBin:
		return env.evalBin(e)
	case *SUn:
		return env.evalUn(e)
	case *SCond:
		c, err := env.evalBool(e.C)
		if err != nil {
			return Val{}, err
		}
		a, err := env.eval(e.A)
		if err != nil {
			return Val{}, err
		}
		b, err := env.eval(e.B)
		if err != nil {
			return Val{}, err
		}
		if a.T.Sort != b.T.Sort {
			return Val{}, fmt.Errorf("conditional branches differ in sort: %s vs %s", a.T.Sort, b.T.Sort)
		}
		return Val{T: tIte(c, a.T, b.T), Typ: a.Typ}, nil
	case *SQuant:
		sub := env.child()
		var binders []string
		var guards []Term
		for _, v := range e.Vars {
			t, err := env.resolveType(v.Type)
			if err != nil {
				return Val{}, err
			}
			srt := env.sortOfSpecType(v.Type, t)
			name := "q_" + v.Name
			binders = append(binders, fmt.Sprintf("(%s %s)", name, srt))
			tv := Term{name, srt}
			sub.vars[v.Name] = Val{T: tv, Typ: t}
			if v.Type.Kind == "map" {
				sub.vars[v.Name] = Val{T: tv} // a total SMT array (sequence / ghost map), indexed with select
			}
			if t != nil && !(v.Type.Kind == "name" && v.Type.Pkg == "" && v.Type.Name == "int") {
				// "int" in a spec quantifier is a mathematical integer; sized types are range-guarded
				if _, _, ok := intRange(t); ok {
					guards = append(guards, inRange(t, tv))
				}
			}
		}
		if e.Seq {
			return env.evalSeqOf(e, sub, binders)
		}
		sub.quantDepth++
		sub.bound = append([]string{}, env.bound...)
		for _, v := range e.Vars {
			sub.bound = append(sub.bound, "q_"+v.Name)
		}
		body, err := sub.evalBool(e.Body)
		if err != nil {
			return Val{}, err
		}
		g := tAnd(guards...)
		if e.Forall {
			fb := tImp(g, body).S
			if len(e.Trig) > 0 {
				var ps []string
				for _, te := range e.Trig {
					tv, err := sub.eval(te)
					if err != nil {
						return Val{}, err
					}
					ps = append(ps, patternTerm(tv.T.S, sub.bound))
				}
				fb = fmt.Sprintf("(! %s :pattern (%s))", fb, strings.Join(ps, " "))
			}
			return Val{T: Term{fmt.Sprintf("(forall (%s) %s)", strings.Join(binders, " "), fb), SBool}}, nil
		}
		return Val{T: Term{fmt.Sprintf("(exists (%s) %s)", strings.Join(binders, " "), tAnd(g, body).S), SBool}}, nil
	case *SSel:
		return env.evalSel(e)
	case *SIndex:
		return env.evalIndex(e)
	case *SSliceE:
		return env.evalSlice(e)
	case *SCall:
		return env.evalCall(e)
	case *SZero:
		t, err := env.resolveType(e.Type)
		if err != nil {
			return Val{}, err
		}
		return Val{T: env.te().Zero(t), Typ: t}, nil
	}
	return Val{}, fmt.Errorf("unsupported spec expression %T", e)
}

func (env *Env) evalIdent(name string) (Val, error) {
	switch name {
	case "true":
		return Val{T: tTrue}, nil
	case "false":
		return Val{T: tFalse}, nil
	case "nil":
		return Val{T: tInt(0), Typ: types.Typ[types.UntypedNil]}, nil
	}
	if v, ok := env.vars[name]; ok {
		return v, nil
	}
	fr := env.fr
	sess := fr.vc.sess
	if strings.HasPrefix(name, "#") {
		return env.evalHash(name)
	}
	if strings.HasSuffix(name, "0") && fr.fn != nil {
		// <param>0 is the entry value of a parameter (parameters are mutable variables in Go)
		for _, prm := range fr.fn.Params {
			if prm.Name()+"0" == name {
				if t, ok := fr.vals[prm]; ok {
					return Val{T: t, Typ: prm.Type()}, nil
				}
			}
		}
	}
	if !env.noLookup {
		if v, ok := env.lookupSource(name); ok {
			return v, nil
		}
	}
	// ghost variable
	if gv, ok := sess.specs.Ghosts[name]; ok {
		gt, srt, err := env.ghostType(gv)
		if err != nil {
			return Val{}, err
		}
		t := env.st.Get("ghost_"+name, srt)
		if isSpecMap(gv.Type) {
			return Val{T: t, Typ: nil}, nil
		}
		return Val{T: t, Typ: gt}, nil
	}
	// package-level object
	if env.pkg != nil {
		if o := env.pkg.Scope().Lookup(name); o != nil {
			return env.pkgObject(o)
		}
	}
	if o := sess.findObjectByName(name); o != nil {
		return env.pkgObject(o)
	}
	// spec constants with no parameters
	if sf, ok := sess.specs.Funcs[name]; ok && len(sf.Params) == 0 {
		return env.applySpecFunc(sf, nil)
	}
	return Val{}, fmt.Errorf("unknown identifier %q", name)
}

func (env *Env) pkgObject(o types.Object) (Val, error) {
	fr := env.fr
	switch o := o.(type) {
	case *types.Const:
		switch o.Val().Kind() {
		case constant.Int:
			bi, _ := new(big.Int).SetString(o.Val().ExactString(), 10)
			return Val{T: Term{bigTerm(bi), SInt}, Typ: o.Type()}, nil
		case constant.Bool:
			return Val{T: tBool(constant.BoolVal(o.Val())), Typ: o.Type()}, nil
		case constant.String:
			return Val{T: fr.vc.sess.strLit(constant.StringVal(o.Val())), Typ: o.Type()}, nil
		}
		return Val{}, fmt.Errorf("unsupported constant %s", o.Name())
	case *types.Var:
		// package-level variable
		sp := fr.vc.sess.prog.Package(o.Pkg())
		if sp == nil {
			return Val{}, fmt.Errorf("no SSA package for %s", o.Pkg().Path())
		}
		g, ok := sp.Members[o.Name()].(*ssa.Global)
		if !ok {
			return Val{}, fmt.Errorf("%s is not a global", o.Name())
		}
		loc := fr.addr(g)
		return Val{T: env.te().Load(env.st, loc), Typ: o.Type(), Loc: loc}, nil
	}
	if fo, ok := o.(*types.Func); ok {
		if sf := fr.vc.sess.prog.FuncValue(fo); sf != nil {
			return Val{T: fr.funcID(sf), Typ: fo.Type()}, nil
		}
	}
	return Val{}, fmt.Errorf("unsupported package-level object %s", o.Name())
}

func (env *Env) evalHash(name string) (Val, error) {
	fr := env.fr
	if env.atBlock == nil {
		return Val{}, fmt.Errorf("%s only valid in loop invariants", name)
	}
	b := env.atBlock
	switch name {
	case "#i":
		for _, ins := range b.Instrs {
			if phi, ok := ins.(*ssa.Phi); ok && phi.Comment == "rangeindex" {
				// #i = number of completed iterations = rangeindex + 1
				return Val{T: tAdd(fr.val(phi), tInt(1)), Typ: types.Typ[types.Int]}, nil
			}
		}
		return Val{}, fmt.Errorf("#i: loop is not a range-over-slice loop")
	case "#seen":
		for _, ins := range b.Instrs {
			if nx, ok := ins.(*ssa.Next); ok && !nx.IsString {
				mt := nx.Iter.(*ssa.Range).X.Type().Underlying().(*types.Map)
				ss := arraySort(env.te().SortOf(mt.Key()), SBool)
				return Val{T: env.st.Get(fr.seenName(nx.Iter), ss)}, nil
			}
		}
		return Val{}, fmt.Errorf("#seen: loop is not a range-over-map loop")
	}
	return Val{}, fmt.Errorf("unknown ghost name %s", name)
}

// lookupSource resolves a source-level variable name at the environment's program point.
func (env *Env) lookupSource(name string) (Val, bool) {
	fr := env.fr
	if env.entryOnly || env.atBlock == nil {
		for _, p := range fr.fn.Params {
			if p.Name() == name {
				return Val{T: fr.val(p), Typ: p.Type()}, true
			}
		}
		for _, fv := range fr.fn.FreeVars {
			if fv.Name() == name {
				return env.valOfSSA(fv, fvIsAddr(fv)), true
			}
		}
		if p := fr.paramByHeaderName(name); p != nil {
			return Val{T: fr.val(p), Typ: p.Type()}, true
		}
		if env.atBlock == nil {
			return Val{}, false
		}
	}
	b := env.atBlock
	idx := env.atIdx
	for b != nil {
		for i := idx - 1; i >= 0; i-- {
			switch ins := b.Instrs[i].(type) {
			case *ssa.DebugRef:
				if id := debugRefName(ins); id == name {
					if !ins.IsAddr {
						// a store to a variable that lives in a cell records the stored value, which is stale at any
						// later point: read the cell instead
						if a := allocOfObject(fr.fn, ins.Object()); a != nil {
							return env.valOfSSA(a, true), true
						}
					}
					return env.valOfSSA(ins.X, ins.IsAddr), true
				}
			case *ssa.Phi:
				if ins.Comment == name {
					return Val{T: fr.val(ins), Typ: ins.Type()}, true
				}
			case *ssa.Alloc:
				if ins.Comment == name {
					return env.valOfSSA(ins, true), true
				}
			}
		}
		b = b.Idom()
		if b != nil {
			idx = len(b.Instrs)
		}
	}
	for _, p := range fr.fn.Params {
		if p.Name() == name {
			return Val{T: fr.val(p), Typ: p.Type()}, true
		}
	}
	for _, fv := range fr.fn.FreeVars {
		if fv.Name() == name {
			return env.valOfSSA(fv, fvIsAddr(fv)), true
		}
	}
	if p := fr.paramByHeaderName(name); p != nil {
		return Val{T: fr.val(p), Typ: p.Type()}, true
	}
	// a call-site clause evaluated inside an inlined callee or closure: the header names of the contract under proof
	if top := fr.vc.top; top != nil && top != fr {
		if p := top.paramByHeaderName(name); p != nil {
			return Val{T: top.val(p), Typ: p.Type()}, true
		}
	}
	return Val{}, false
}

// paramByHeaderName resolves a name of the contract header positionally: a parameter renamed in the code keeps the
// name the contract gave it (contracts bind parameters by position; renaming one is a harmless edit).
func (fr *Frame) paramByHeaderName(name string) *ssa.Parameter {
	c := fr.contract
	if c == nil || fr.fn == nil {
		return nil
	}
	off := 0
	if fr.fn.Signature.Recv() != nil {
		off = 1
		if c.RecvName == name && len(fr.fn.Params) > 0 {
			return fr.fn.Params[0]
		}
	}
	for k, pn := range c.Params {
		if pn == name && off+k < len(fr.fn.Params) {
			return fr.fn.Params[off+k]
		}
	}
	return nil
}

// fvIsAddr reports whether a free variable holds the address of the captured variable (captured by reference) rather
// than its value: by-reference captures are only ever loaded from or stored to.
func fvIsAddr(fv *ssa.FreeVar) bool {
	refs := fv.Referrers()
	if refs == nil || len(*refs) == 0 {
		return false
	}
	for _, r := range *refs {
		switch r := r.(type) {
		case *ssa.UnOp:
			if r.Op != token.MUL {
				return false
			}
		case *ssa.Store:
			if r.Addr != ssa.Value(fv) {
				return false
			}
		case *ssa.DebugRef:
		case *ssa.MakeClosure:
		default:
			return false
		}
	}
	// a pointer-to-struct value that is only dereferenced as a whole is indistinguishable; prefer "value" for pointers to
	// named struct types used through field selection elsewhere
	return true
}

// allocOfObject finds the cell (Alloc) of a source variable, if the variable lives in one.
func allocOfObject(fn *ssa.Function, o types.Object) *ssa.Alloc {
	if o == nil || !o.Pos().IsValid() {
		return nil
	}
	for _, a := range fn.Locals {
		if a.Pos() == o.Pos() && a.Comment == o.Name() {
			return a
		}
	}
	for _, b := range fn.Blocks {
		for _, ins := range b.Instrs {
			if a, ok := ins.(*ssa.Alloc); ok && a.Pos() == o.Pos() && a.Comment == o.Name() {
				return a
			}
		}
	}
	return nil
}

func debugRefName(d *ssa.DebugRef) string {
	if o := d.Object(); o != nil {
		return o.Name()
	}
	return ""
}

func (env *Env) valOfSSA(v ssa.Value, isAddr bool) Val {
	fr := env.fr
	if isAddr {
		loc := fr.addr(v)
		return env.loaded(Val{T: env.te().Load(env.st, loc), Typ: loc.Typ, Loc: loc})
	}
	return Val{T: fr.val(v), Typ: v.Type()}
}

func isIntLike(v Val) bool { return v.T.Sort == SInt }

func (env *Env) evalBin(e *SBin) (Val, error) {
	switch e.Op {
	case "&&", "||", "==>", "<==>":
		l, err := env.evalBool(e.L)
		if err != nil {
			return Val{}, err
		}
		r, err := env.evalBool(e.R)
		if err != nil {
			return Val{}, err
		}
		switch e.Op {
		case "&&":
			return Val{T: tAnd(l, r)}, nil
		case "||":
			return Val{T: tOr(l, r)}, nil
		case "==>":
			return Val{T: tImp(l, r)}, nil
		default:
			return Val{T: tEq(l, r)}, nil
		}
	case "in":
		k, err := env.eval(e.L)
		if err != nil {
			return Val{}, err
		}
		m, err := env.eval(e.R)
		if err != nil {
			return Val{}, err
		}
		if m.Typ != nil {
			if mt, ok := m.Typ.Underlying().(*types.Map); ok {
				has, _ := env.fr.mapLookup(env.st, mt, m.T, k.T)
				return Val{T: has}, nil
			}
		}
		if strings.HasPrefix(m.T.Sort, "(Array ") && arrayElemSort(m.T.Sort) == SBool {
			return Val{T: tSelect(m.T, k.T)}, nil
		}
		return Val{}, fmt.Errorf("'in' needs a map or set, got %s", m.T.Sort)
	}
	l, err := env.eval(e.L)
	if err != nil {
		return Val{}, err
	}
	r, err := env.eval(e.R)
	if err != nil {
		return Val{}, err
	}
	// nil adapts to the other operand's sort
	if l.Typ == types.Typ[types.UntypedNil] && r.T.Sort != SInt {
		l.T = env.te().Zero(r.Typ)
	}
	if r.Typ == types.Typ[types.UntypedNil] && l.T.Sort != SInt {
		r.T = env.te().Zero(l.Typ)
	}
	// a concrete value compared with an interface value is boxed first (as Go does)
	if l.T.Sort == SIface && r.T.Sort != SIface && r.Typ != nil && (e.Op == "==" || e.Op == "!=") {
		r.T = Term{fmt.Sprintf("(mkIface %d %s)", env.te().TypeTag(r.Typ), env.te().Box(r.Typ, r.T).S), SIface}
	} else if r.T.Sort == SIface && l.T.Sort != SIface && l.Typ != nil && (e.Op == "==" || e.Op == "!=") {
		l.T = Term{fmt.Sprintf("(mkIface %d %s)", env.te().TypeTag(l.Typ), env.te().Box(l.Typ, l.T).S), SIface}
	}
	switch e.Op {
	case "==", "!=":
		if l.T.Sort != r.T.Sort {
			return Val{}, fmt.Errorf("comparison of different sorts %s and %s in %s", l.T.Sort, r.T.Sort, e)
		}
		eq := env.fr.equal(l.T, r.T, l.Typ)
		if e.Op == "!=" {
			eq = tNot(eq)
		}
		return Val{T: eq}, nil
	case "<", "<=", ">", ">=":
		if l.T.Sort != SInt || r.T.Sort != SInt {
			return Val{}, fmt.Errorf("ordering comparison needs integers in %s", e)
		}
		switch e.Op {
		case "<":
			return Val{T: tLt(l.T, r.T)}, nil
		case "<=":
			return Val{T: tLe(l.T, r.T)}, nil
		case ">":
			return Val{T: tLt(r.T, l.T)}, nil
		default:
			return Val{T: tLe(r.T, l.T)}, nil
		}
	}
	if l.T.Sort == SStr && e.Op == "+" {
		return Val{T: env.fr.strConcat(l.T, r.T), Typ: l.Typ}, nil
	}
	if l.T.Sort != SInt || r.T.Sort != SInt {
		return Val{}, fmt.Errorf("arithmetic needs integers in %s (got %s, %s)", e, l.T.Sort, r.T.Sort)
	}
	// spec arithmetic is mathematical (no wrap-around)
	switch e.Op {
	case "+":
		return Val{T: tAdd(l.T, r.T)}, nil
	case "-":
		return Val{T: tSub(l.T, r.T)}, nil
	case "*":
		return Val{T: tMul(l.T, r.T)}, nil
	case "/":
		return Val{T: goDiv(l.T, r.T)}, nil
	case "%":
		return Val{T: goRem(l.T, r.T)}, nil
	case "div":
		return Val{T: Term{app("div", l.T.S, r.T.S), SInt}}, nil
	case "mod":
		return Val{T: Term{app("mod", l.T.S, r.T.S), SInt}}, nil
	case "<<":
		if n, ok := parseNum(r.T.S); ok && n.IsInt64() {
			return Val{T: tMul(l.T, Term{pow2(n.Int64()).String(), SInt})}, nil
		}
		return Val{T: tMul(l.T, env.fr.pow2Term(r.T))}, nil
	case ">>":
		if n, ok := parseNum(r.T.S); ok && n.IsInt64() {
			return Val{T: Term{fmt.Sprintf("(div %s %s)", l.T.S, pow2(n.Int64()).String()), SInt}}, nil
		}
		return Val{T: Term{fmt.Sprintf("(div %s %s)", l.T.S, env.fr.pow2Term(r.T).S), SInt}}, nil
	case "&":
		return Val{T: env.fr.binop(tokenOf("&"), l.T, r.T, types.Typ[types.Int], types.Typ[types.Int], types.Typ[types.Int], nil)}, nil
	}
	return Val{}, fmt.Errorf("unsupported operator %s", e.Op)
}

func (env *Env) evalUn(e *SUn) (Val, error) {
	switch e.Op {
	case "!":
		b, err := env.evalBool(e.X)
		if err != nil {
			return Val{}, err
		}
		return Val{T: tNot(b)}, nil
	case "-":
		v, err := env.eval(e.X)
		if err != nil {
			return Val{}, err
		}
		return Val{T: tSub(tInt(0), v.T)}, nil
	case "*":
		v, err := env.eval(e.X)
		if err != nil {
			return Val{}, err
		}
		pt := derefType(v.Typ)
		if pt == nil {
			return Val{}, fmt.Errorf("dereference of non-pointer in %s", e)
		}
		loc := env.te().PtrLoc(pt, v.T)
		return Val{T: env.te().Load(env.st, loc), Typ: pt, Loc: loc}, nil
	case "&":
		v, err := env.eval(e.X)
		if err != nil {
			return Val{}, err
		}
		if v.Loc == nil {
			return Val{}, fmt.Errorf("cannot take address in %s", e)
		}
		return Val{T: env.fr.opaquePtr(v.Loc), Typ: types.NewPointer(v.Typ)}, nil
	}
	return Val{}, fmt.Errorf("unsupported unary %s", e.Op)
}

func (env *Env) evalSel(e *SSel) (Val, error) {
	fr := env.fr
	// package-qualified name?
	if id, ok := e.X.(*SIdent); ok {
		if _, isVar := env.vars[id.Name]; !isVar {
			if _, isSrc := env.lookupIfAllowed(id.Name); !isSrc {
				if p := fr.vc.sess.findPackageByName(env.pkg, id.Name); p != nil {
					if o := p.Scope().Lookup(e.Sel); o != nil {
						return env.pkgObject(o)
					}
					return Val{}, fmt.Errorf("%s.%s not found", id.Name, e.Sel)
				}
			}
		}
	}
	x, err := env.eval(e.X)
	if err != nil {
		return Val{}, err
	}
	if x.Typ == nil {
		return Val{}, fmt.Errorf("selector on untyped spec value in %s", e)
	}
	return env.selectField(x, e.Sel, e)
}

// loaded records what holds for every value read from memory (integer ranges, well-formed slice headers) when the
// read is a closed term; values read under a quantifier get no such fact.
func (env *Env) loaded(v Val) Val {
	if v.Typ == nil || env.dry {
		return v
	}
	switch v.T.Sort {
	case SInt, SSlice, SStr:
	default:
		return v
	}
	isMutexPtr := false
	if mt := derefType(v.Typ); mt != nil {
		if n, ok := types.Unalias(mt).(*types.Named); ok && (qualName(n) == "sync.Mutex" || qualName(n) == "sync.RWMutex") {
			isMutexPtr = true
		}
	}
	if v.T.Sort == SInt && !isMutexPtr {
		if _, _, ok := intRange(v.Typ); !ok {
			return v
		}
	}
	for _, t := range smtTokens(v.T.S) {
		if strings.HasPrefix(t, "q_") || strings.HasPrefix(t, "|q_") {
			return v
		}
	}
	vc := env.fr.vc
	if vc.typedSeen == nil {
		vc.typedSeen = map[string]bool{}
	}
	if vc.typedSeen[v.T.S] {
		return v
	}
	vc.typedSeen[v.T.S] = true
	if isMutexPtr {
		// the same fact the code's own loads get: a mutex pointer held in a field points to a separately allocated mutex
		env.te().pre.Add("fn:subtag", "(declare-fun subtag (Int) Int)")
		vc.assume(Term{fmt.Sprintf("(= (subtag %s) 0)", v.T.S), SBool})
		return v
	}
	env.fr.assumeTyped(v.Typ, v.T)
	return v
}

func (env *Env) lookupIfAllowed(name string) (Val, bool) {
	if env.noLookup {
		return Val{}, false
	}
	return env.lookupSource(name)
}

func (env *Env) selectField(x Val, sel string, e SExpr) (Val, error) {
	te := env.te()
	obj, index, indirect := types.LookupFieldOrMethod(x.Typ, true, env.pkgOf(x.Typ), sel)
	_ = indirect
	fv, ok := obj.(*types.Var)
	if !ok || obj == nil {
		return Val{}, fmt.Errorf("no field %s in %s (%s)", sel, x.Typ, e)
	}
	_ = fv
	cur := x
	for _, i := range index {
		t := cur.Typ
		if pt := derefType(t); pt != nil && te.isStructVal(pt) {
			loc := te.FieldLoc(pt, i, cur.T)
			if cur.Loc != nil && cur.Loc.Kind == "obj" && false {
				loc = te.FieldLoc(pt, i, cur.Loc.Base)
			}
			cur = env.loaded(Val{T: te.Load(env.st, loc), Typ: loc.Typ, Loc: loc})
			continue
		}
		if te.isStructVal(t) {
			if cur.Loc != nil && cur.Loc.Kind == "obj" {
				loc := te.FieldLoc(t, i, cur.Loc.Base)
				cur = env.loaded(Val{T: te.Load(env.st, loc), Typ: loc.Typ, Loc: loc})
				continue
			}
			si := te.StructInfo(t)
			cur = Val{T: fieldOf(cur.T, "mk_"+si.sort, i, si.fields[i], si.fsorts[i]), Typ: si.st.Field(i).Type()}
			continue
		}
		return Val{}, fmt.Errorf("cannot select %s from %s", sel, t)
	}
	return cur, nil
}

func (env *Env) pkgOf(t types.Type) *types.Package {
	if pt := derefType(t); pt != nil {
		t = pt
	}
	if n, ok := types.Unalias(t).(*types.Named); ok && n.Obj().Pkg() != nil {
		return n.Obj().Pkg()
	}
	return env.pkg
}

func (env *Env) evalIndex(e *SIndex) (Val, error) {
	te := env.te()
	x, err := env.eval(e.X)
	if err != nil {
		return Val{}, err
	}
	i, err := env.eval(e.I)
	if err != nil {
		return Val{}, err
	}
	if x.Typ == nil {
		if strings.HasPrefix(x.T.Sort, "(Array ") {
			return Val{T: tSelect(x.T, i.T)}, nil
		}
		return Val{}, fmt.Errorf("index of non-indexable spec value in %s", e)
	}
	switch xt := x.Typ.Underlying().(type) {
	case *types.Slice:
		loc := te.ElemLoc(xt.Elem(), sArr(x.T), te.sIdx(sOff(x.T), i.T))
		return env.loaded(Val{T: te.Load(env.st, loc), Typ: xt.Elem(), Loc: loc}), nil
	case *types.Basic:
		if x.T.Sort == SStr {
			return Val{T: strAt(x.T, i.T), Typ: types.Typ[types.Uint8]}, nil
		}
	case *types.Map:
		// m[k] in a spec has Go's meaning: the zero value when the key is absent
		has, v := env.fr.mapLookup(env.st, xt, x.T, i.T)
		return Val{T: tIte(has, v, te.Zero(xt.Elem())), Typ: xt.Elem()}, nil
	case *types.Array:
		if x.Loc != nil && x.Loc.Kind == "obj" {
			loc := te.ElemLoc(xt.Elem(), x.Loc.Base, i.T)
			return Val{T: te.Load(env.st, loc), Typ: xt.Elem(), Loc: loc}, nil
		}
		return Val{T: tSelect(x.T, i.T), Typ: xt.Elem()}, nil
	case *types.Pointer:
		if at, ok := xt.Elem().Underlying().(*types.Array); ok {
			loc := te.ElemLoc(at.Elem(), x.T, i.T)
			return Val{T: te.Load(env.st, loc), Typ: at.Elem(), Loc: loc}, nil
		}
	}
	return Val{}, fmt.Errorf("cannot index %s in %s", x.Typ, e)
}

func (env *Env) evalSlice(e *SSliceE) (Val, error) {
	x, err := env.eval(e.X)
	if err != nil {
		return Val{}, err
	}
	var lo, hi Term
	lo = tInt(0)
	if e.Lo != nil {
		v, err := env.eval(e.Lo)
		if err != nil {
			return Val{}, err
		}
		lo = v.T
	}
	if x.T.Sort == SStr {
		hi = strLen(x.T)
		if e.Hi != nil {
			v, err := env.eval(e.Hi)
			if err != nil {
				return Val{}, err
			}
			hi = v.T
		}
		env.te().strSub()
		return Val{T: Term{app("s_sub", x.T.S, lo.S, hi.S), SStr}, Typ: x.Typ}, nil
	}
	if x.T.Sort == SSlice {
		hi = sLen(x.T)
		if e.Hi != nil {
			v, err := env.eval(e.Hi)
			if err != nil {
				return Val{}, err
			}
			hi = v.T
		}
		return Val{T: mkSlice(sArr(x.T), env.te().sIdx(sOff(x.T), lo), tSub(hi, lo), tSub(sCap(x.T), lo)), Typ: x.Typ}, nil
	}
	return Val{}, fmt.Errorf("cannot slice %s", x.T.Sort)
}

func (env *Env) evalCall(e *SCall) (Val, error) {
	fr := env.fr
	sess := fr.vc.sess
	if id, ok := e.Fun.(*SIdent); ok {
		switch id.Name {
		case "old":
			if len(e.Args) != 1 {
				return Val{}, fmt.Errorf("old takes one argument")
			}
			sub := *env
			sub.st = env.old
			if env.curSt == nil {
				sub.curSt = env.st
			}
			return sub.eval(e.Args[0])
		case "cur":
			// cur(e) inside old(...): evaluate e in the current state again
			if len(e.Args) != 1 {
				return Val{}, fmt.Errorf("cur takes one argument")
			}
			if env.curSt == nil {
				return env.eval(e.Args[0])
			}
			sub := *env
			sub.st = env.curSt
			sub.curSt = nil
			return sub.eval(e.Args[0])
		case "len", "cap":
			if len(e.Args) != 1 {
				return Val{}, fmt.Errorf("%s takes one argument", id.Name)
			}
			x, err := env.eval(e.Args[0])
			if err != nil {
				return Val{}, err
			}
			switch x.T.Sort {
			case SSlice:
				if id.Name == "cap" {
					return Val{T: sCap(x.T)}, nil
				}
				return Val{T: sLen(x.T)}, nil
			case SStr:
				return Val{T: strLen(x.T)}, nil
			}
			if x.Typ != nil {
				switch xt := x.Typ.Underlying().(type) {
				case *types.Map:
					return Val{T: fr.mapLen(env.st, x.T)}, nil
				case *types.Array:
					return Val{T: tInt(xt.Len())}, nil
				}
			}
			return Val{}, fmt.Errorf("len of %s", x.T.Sort)
		case "min", "max":
			var r Term
			for k, a := range e.Args {
				v, err := env.eval(a)
				if err != nil {
					return Val{}, err
				}
				if k == 0 {
					r = v.T
				} else if id.Name == "min" {
					r = tIte(tLe(r, v.T), r, v.T)
				} else {
					r = tIte(tLe(v.T, r), r, v.T)
				}
			}
			return Val{T: r}, nil
		case "typeOf":
			x, err := env.eval(e.Args[0])
			if err != nil {
				return Val{}, err
			}
			return Val{T: fieldOf(x.T, "mkIface", 0, "itag", SInt)}, nil
		case "typeIs":
			// typeIs(x, T): dynamic type of interface x is T
			x, err := env.eval(e.Args[0])
			if err != nil {
				return Val{}, err
			}
			te := exprToTypeE(e.Args[1])
			if te == nil {
				return Val{}, fmt.Errorf("typeIs needs a type as second argument")
			}
			t, err := env.resolveType(te)
			if err != nil {
				return Val{}, err
			}
			if _, isIface := t.Underlying().(*types.Interface); isIface {
				// an interface type as T (e.g. a type parameter instantiated with any): x.(T) succeeds iff the
				// dynamic type implements T
				return Val{T: env.fr.implementsTerm(fieldOf(x.T, "mkIface", 0, "itag", SInt), t)}, nil
			}
			return Val{T: tEq(fieldOf(x.T, "mkIface", 0, "itag", SInt), tInt(int64(env.te().TypeTag(t))))}, nil
		case "unbox":
			x, err := env.eval(e.Args[0])
			if err != nil {
				return Val{}, err
			}
			te := exprToTypeE(e.Args[1])
			t, err := env.resolveType(te)
			if err != nil {
				return Val{}, err
			}
			return Val{T: env.te().Unbox(t, fieldOf(x.T, "mkIface", 1, "ival", SInt)), Typ: t}, nil
		case "fresh":
			x, err := env.eval(e.Args[0])
			if err != nil {
				return Val{}, err
			}
			r := x.T
			if x.T.Sort == SSlice {
				r = sArr(x.T)
			}
			// fresh(x): allocated after the pre-state of the enclosing contract (function entry, or the call for a callee's postcondition)
			base := tInt(0)
			if env.old != nil {
				base = env.old.Get("clk", SInt)
			}
			return Val{T: tLt(base, Term{fmt.Sprintf("(atime %s)", r.S), SInt})}, nil
		case "deferred":
			// deferred(): the call this clause speaks about runs as a deferred call, i.e. when the function returns
			return Val{T: tBool(env.fr.inDefer)}, nil
		case "funcval":
			// funcval("(*T).Method") / funcval("name"): the function value of a function of the current package
			lit, ok := e.Args[0].(*SStrLit)
			if !ok || len(e.Args) != 1 || env.pkg == nil {
				return Val{}, fmt.Errorf("funcval needs one string literal")
			}
			f := env.fr.vc.sess.findFunction(&Contract{Pkg: env.pkg.Path(), Key: lit.Val})
			if f == nil {
				return Val{}, fmt.Errorf("funcval: no function %s in %s", lit.Val, env.pkg.Path())
			}
			return Val{T: env.fr.funcID(f)}, nil
		case "arrayOf":
			// arrayOf(s): identity of the backing array of slice s
			x, err := env.eval(e.Args[0])
			if err != nil {
				return Val{}, err
			}
			if x.T.Sort != SSlice {
				return Val{}, fmt.Errorf("arrayOf needs a slice")
			}
			return Val{T: sArr(x.T)}, nil
		case "allocated":
			x, err := env.eval(e.Args[0])
			if err != nil {
				return Val{}, err
			}
			// allocated(x): x exists in the state the clause is evaluated in
			return Val{T: tLe(Term{fmt.Sprintf("(atime %s)", x.T.S), SInt}, env.st.Get("clk", SInt))}, nil
		case "nolocks":
			// nolocks(): this goroutine holds no mutex (ghost lock state)
			w := env.st.Get("ghost_LockW", arraySort(SInt, SBool))
			r := env.st.Get("ghost_LockR", arraySort(SInt, SBool))
			return Val{T: Term{fmt.Sprintf("(forall ((m Int)) (and (not (select %s m)) (not (select %s m))))", w.S, r.S), SBool}}, nil
		case "held", "rheld":
			x, err := env.eval(e.Args[0])
			if err != nil {
				return Val{}, err
			}
			if x.Loc == nil || (x.Typ != nil && derefType(x.Typ) != nil) {
				if x.Typ != nil && derefType(x.Typ) != nil {
					// pointer to a lock
					return Val{T: fr.lockHeld(env.st, &Loc{Kind: "cell", Base: x.T}, id.Name == "rheld")}, nil
				}
				return Val{}, fmt.Errorf("held() needs a lock location")
			}
			return Val{T: fr.lockHeld(env.st, x.Loc, id.Name == "rheld")}, nil
		case "str":
			// str(b): string with the contents of byte slice b
			x, err := env.eval(e.Args[0])
			if err != nil {
				return Val{}, err
			}
			return Val{T: fr.strOfBytes(env.st, x.T), Typ: types.Typ[types.String]}, nil
		case "uint32", "uint64", "int64", "int32", "uint16", "uint8", "byte", "uint":
			v, err := env.eval(e.Args[0])
			if err != nil {
				return Val{}, err
			}
			t := types.Universe.Lookup(id.Name).Type()
			if v.T.Sort == SFloat {
				// same uninterpreted conversion as the code's float-to-integer conversion
				v.T = fr.uf("float.toint", SInt, v.T)
			}
			return Val{T: wrap(t, v.T), Typ: t}, nil
		case "int":
			v, err := env.eval(e.Args[0])
			if err != nil {
				return Val{}, err
			}
			v.Typ = types.Typ[types.Int]
			return v, nil
		case "res1", "res2":
			// res1(f(x)): second (third) result of a pure Go call
			inner, ok := e.Args[0].(*SCall)
			if !ok || len(e.Args) != 1 {
				return Val{}, fmt.Errorf("%s needs a call as argument", id.Name)
			}
			sub := *env
			sub.resIdx = int(id.Name[3] - '0')
			return sub.evalCall(inner)
		case "inst", "tloc":
			x, err := env.eval(e.Args[0])
			if err != nil {
				return Val{}, err
			}
			if x.T.Sort != STime {
				return Val{}, fmt.Errorf("%s needs a time.Time", id.Name)
			}
			if id.Name == "inst" {
				return Val{T: fieldOf(x.T, "mkTime", 0, "tinst", SInt)}, nil
			}
			lt := env.fr.vc.sess.findPackageByName(env.pkg, "time")
			var typ types.Type
			if lt != nil {
				if o := lt.Scope().Lookup("Location"); o != nil {
					typ = types.NewPointer(o.Type())
				}
			}
			return Val{T: fieldOf(x.T, "mkTime", 1, "tloc", SInt), Typ: typ}, nil
		}
		if sf, ok := sess.specs.Funcs[id.Name]; ok {
			var args []Val
			for _, a := range e.Args {
				v, err := env.eval(a)
				if err != nil {
					return Val{}, err
				}
				args = append(args, v)
			}
			return env.applySpecFunc(sf, args)
		}
		// package-level Go function with pure contract
		if env.pkg != nil {
			if o, ok := env.pkg.Scope().Lookup(id.Name).(*types.Func); ok {
				return env.callPureGo(o, nil, e.Args)
			}
		}
		// conversion T(x)
		if te := exprToTypeE(e.Fun); te != nil && len(e.Args) == 1 {
			if t, err := env.resolveType(te); err == nil && t != nil {
				v, err := env.eval(e.Args[0])
				if err != nil {
					return Val{}, err
				}
				if v.T.Sort == env.te().SortOf(t) {
					return Val{T: v.T, Typ: t}, nil
				}
			}
		}
		return Val{}, fmt.Errorf("unknown spec function %s", id.Name)
	}
	if sel, ok := e.Fun.(*SSel); ok {
		// pkg.Func(...) ?
		if id, ok := sel.X.(*SIdent); ok {
			if _, isVar := env.vars[id.Name]; !isVar {
				if _, isSrc := env.lookupIfAllowed(id.Name); !isSrc {
					if p := sess.findPackageByName(env.pkg, id.Name); p != nil {
						if o, ok := p.Scope().Lookup(sel.Sel).(*types.Func); ok {
							return env.callPureGo(o, nil, e.Args)
						}
						if tn, ok := p.Scope().Lookup(sel.Sel).(*types.TypeName); ok && len(e.Args) == 1 {
							v, err := env.eval(e.Args[0])
							if err != nil {
								return Val{}, err
							}
							return Val{T: v.T, Typ: tn.Type()}, nil
						}
						if sf, ok := sess.specs.Funcs[sel.Sel]; ok {
							var args []Val
							for _, a := range e.Args {
								v, err := env.eval(a)
								if err != nil {
									return Val{}, err
								}
								args = append(args, v)
							}
							return env.applySpecFunc(sf, args)
						}
						return Val{}, fmt.Errorf("%s.%s is not a function", id.Name, sel.Sel)
					}
				}
			}
		}
		// method call on a Go value
		recv, err := env.eval(sel.X)
		if err != nil {
			return Val{}, err
		}
		if recv.Typ == nil {
			return Val{}, fmt.Errorf("method call on untyped spec value in %s", e)
		}
		obj, _, _ := types.LookupFieldOrMethod(recv.Typ, true, env.pkgOf(recv.Typ), sel.Sel)
		m, ok := obj.(*types.Func)
		if !ok {
			return Val{}, fmt.Errorf("no method %s on %s", sel.Sel, recv.Typ)
		}
		return env.callPureGo(m, &recv, e.Args)
	}
	return Val{}, fmt.Errorf("unsupported call %s", e)
}

func exprToTypeE(e SExpr) *STypeE {
	return exprToType(e)
}

// callPureGo applies a Go function that has a pure extern contract (uninterpreted function).
func (env *Env) callPureGo(f *types.Func, recv *Val, argsE []SExpr) (Val, error) {
	fr := env.fr
	sess := fr.vc.sess
	sig := f.Type().(*types.Signature)
	var pkg, key string
	var recvT types.Type
	var args []Term
	if sig.Recv() != nil {
		recvT = sig.Recv().Type()
		pkg, key = methodKey(recvT, f.Name())
		if recv == nil {
			return Val{}, fmt.Errorf("method %s needs receiver", f.Name())
		}
		rv := *recv
		// auto address/deref
		if _, isPtr := recvT.Underlying().(*types.Pointer); isPtr && derefType(rv.Typ) == nil {
			if rv.Loc != nil {
				rv.T = fr.opaquePtr(rv.Loc)
			} else {
				return Val{}, fmt.Errorf("cannot take address of receiver for %s", f.Name())
			}
		} else if !isPtr && derefType(rv.Typ) != nil {
			pt := derefType(rv.Typ)
			loc := env.te().PtrLoc(pt, rv.T)
			rv.T = env.te().Load(env.st, loc)
		}
		args = append(args, rv.T)
	} else {
		if f.Pkg() != nil {
			pkg = f.Pkg().Path()
		}
		key = f.Name()
	}
	c := sess.specs.Contracts[pkg+"::"+key]
	if c == nil || !c.Pure {
		return Val{}, fmt.Errorf("call of %s.%s in a spec needs an 'extern pure' (or pure) contract", pkg, key)
	}
	aenv := *env
	aenv.resIdx = 0
	for _, a := range argsE {
		v, err := aenv.eval(a)
		if err != nil {
			return Val{}, err
		}
		args = append(args, v.T)
	}
	if sig.Results().Len() < 1 {
		return Val{}, fmt.Errorf("pure call %s must have a result", key)
	}
	fr.vc.externUsed["extern "+pkg+"::"+key] = true
	ri := env.resIdx
	if ri >= sig.Results().Len() {
		return Val{}, fmt.Errorf("pure call %s has no result %d", key, ri)
	}
	return Val{T: fr.pureApp(env.st, c, ri, sig, recvT, args), Typ: sig.Results().At(ri).Type()}, nil
}

// evalSeqOf evaluates "seqof k int :: e": a fresh array constant q with the definitional assumption forall k :: q[k] == e.
// The extension is conservative (such an array always exists), so the assumption cannot make a path vacuous.
func (env *Env) evalSeqOf(e *SQuant, sub *Env, binders []string) (Val, error) {
	if len(e.Vars) != 1 {
		return Val{}, fmt.Errorf("seqof binds exactly one index variable")
	}
	for _, b := range env.bound {
		if b == "q_"+e.Vars[0].Name {
			return Val{}, fmt.Errorf("seqof index %s shadows an enclosing bound variable", e.Vars[0].Name)
		}
	}
	sub.quantDepth++
	body, err := sub.eval(e.Body)
	if err != nil {
		return Val{}, err
	}
	if len(env.bound) > 0 {
		// a sequence is a constant of the verification condition: it may sit under a quantifier only if it is closed
		toks := map[string]bool{}
		for _, t := range smtTokens(body.T.S) {
			toks[t] = true
		}
		for _, b := range env.bound {
			if toks[b] {
				return Val{}, fmt.Errorf("seqof under a quantifier mentions the bound variable %s", strings.TrimPrefix(b, "q_"))
			}
		}
	}
	vc := env.fr.vc
	key := body.T.Sort + "|" + body.T.S
	if vc.seqCache == nil {
		vc.seqCache = map[string]Term{}
	}
	if q, ok := vc.seqCache[key]; ok {
		return Val{T: q}, nil
	}
	q := vc.fresh("seq", arraySort(SInt, body.T.Sort))
	sel := tSelect(q, Term{"q_" + e.Vars[0].Name, SInt})
	vc.assume(Term{fmt.Sprintf("(forall (%s) (! (= %s %s) :pattern (%s)))", binders[0], sel.S, body.T.S, sel.S), SBool})
	vc.seqCache[key] = q
	return Val{T: q}, nil
}

// applySpecFunc expands a defined spec function or applies an uninterpreted one.
func (env *Env) applySpecFunc(sf *SpecFunc, args []Val) (Val, error) {
	if len(args) != len(sf.Params) {
		return Val{}, fmt.Errorf("spec function %s expects %d arguments", sf.Name, len(sf.Params))
	}
	fr := env.fr
	// resolve types in the package where the spec function was declared
	denv := env.child()
	if p := fr.vc.sess.typesPkg(sf.Pkg); p != nil {
		denv.pkg = p
	}
	rt, err := denv.resolveType(sf.Result)
	if err != nil {
		return Val{}, fmt.Errorf("spec function %s: %v", sf.Name, err)
	}
	if sf.Body != nil {
		sub := denv
		sub.vars = map[string]Val{}
		sub.noLookup = true
		sub.atBlock = nil
		for i, p := range sf.Params {
			pt, err := denv.resolveType(p.Type)
			if err != nil {
				return Val{}, fmt.Errorf("spec function %s: %v", sf.Name, err)
			}
			a := args[i]
			if a.Typ == nil || pt != nil {
				if pt != nil && a.Typ == types.Typ[types.UntypedNil] {
					a.T = env.te().Zero(pt)
				}
				if pt != nil {
					a.Typ = pt
				}
			}
			sub.vars[p.Name] = a
		}
		v, err := sub.eval(sf.Body)
		if err != nil {
			return Val{}, fmt.Errorf("in %s: %v", sf.Name, err)
		}
		if rt != nil {
			v.Typ = rt
		}
		return v, nil
	}
	// uninterpreted
	var ss, as []string
	for i, p := range sf.Params {
		pt, err := denv.resolveType(p.Type)
		if err != nil {
			return Val{}, fmt.Errorf("spec function %s: %v", sf.Name, err)
		}
		srt := denv.sortOfSpecType(p.Type, pt)
		if args[i].T.Sort != srt {
			if args[i].Typ == types.Typ[types.UntypedNil] && pt != nil {
				args[i].T = env.te().Zero(pt)
			} else {
				return Val{}, fmt.Errorf("spec function %s: argument %d has sort %s, expected %s", sf.Name, i+1, args[i].T.Sort, srt)
			}
		}
		ss = append(ss, srt)
		as = append(as, args[i].T.S)
	}
	rs := denv.sortOfSpecType(sf.Result, rt)
	name := smtName("sf_" + sf.Name)
	env.te().pre.Add("fn:"+name, fmt.Sprintf("(declare-fun %s (%s) %s)", name, strings.Join(ss, " "), rs))
	return Val{T: Term{app(name, as...), rs}, Typ: rt}, nil
}

// evalModTargets evaluates a modifies expression to heap targets.
func (env *Env) evalModTargets(e SExpr) ([]modTarget, error) {
	te := env.te()
	fr := env.fr
	if c, ok := e.(*SCall); ok {
		if id, ok := c.Fun.(*SIdent); ok && len(c.Args) == 1 {
			switch id.Name {
			case "elems":
				x, err := env.eval(c.Args[0])
				if err != nil {
					return nil, err
				}
				st, ok := x.Typ.Underlying().(*types.Slice)
				if !ok {
					return nil, fmt.Errorf("elems() needs a slice")
				}
				el := st.Elem()
				if te.isAggregate(el) {
					out := map[string]string{}
					fr.staticHeapsOfType(el, out, false)
					var ts []modTarget
					for _, h := range sortedKeys(out) {
						ts = append(ts, modTarget{heap: h, sort: out[h], all: true})
					}
					return ts, nil
				}
				empty := tEq(sCap(x.T), tInt(0))
				return []modTarget{{heap: te.elemHeap(el), sort: arraySort(SInt, arraySort(SInt, te.SortOf(el))), base: sArr(x.T), vacuous: &empty}}, nil
			case "pointee":
				// pointee(v): everything stored in the object that interface value v points to (e.g. the target of a decoder)
				x, err := env.eval(c.Args[0])
				if err != nil {
					return nil, err
				}
				if x.T.Sort == SIface && strings.HasPrefix(x.T.S, "(mkIface ") {
					parts := splitSexp(x.T.S[len("(mkIface ") : len(x.T.S)-1])
					if len(parts) == 2 {
						if n, ok := parseNum(parts[0]); ok && n.IsInt64() && n.Int64() >= 1 && int(n.Int64()) <= len(te.tagList) {
							dt := te.tagList[n.Int64()-1]
							if pt := derefType(dt); pt != nil {
								return env.targetsOfLoc(te.PtrLoc(pt, Term{parts[1], SInt})), nil
							}
						}
					}
				}
				return []modTarget{{heap: "*", all: true}}, nil
			case "entries":
				x, err := env.eval(c.Args[0])
				if err != nil {
					return nil, err
				}
				mt, ok := x.Typ.Underlying().(*types.Map)
				if !ok {
					return nil, fmt.Errorf("entries() needs a map")
				}
				h, v := te.mapHeaps(mt)
				return []modTarget{{heap: h, sort: te.mapHasSort(mt), base: x.T}, {heap: v, sort: te.mapValSort(mt), base: x.T}, {heap: "MapLen", sort: arraySort(SInt, SInt), base: x.T}}, nil
			}
		}
	}
	if u, ok := e.(*SUn); ok && u.Op == "*" {
		x, err := env.eval(u.X)
		if err != nil {
			return nil, err
		}
		pt := derefType(x.Typ)
		if pt == nil {
			return nil, fmt.Errorf("modifies *x needs a pointer")
		}
		return env.targetsOfLoc(te.PtrLoc(pt, x.T)), nil
	}
	if id, ok := e.(*SIdent); ok && id.Name == "epoch" {
		// the heap epoch: what abstract accessors (pure functions of an object) depend on; "modifies epoch" says that
		// such accessors may answer differently afterwards while every modelled heap location keeps its value
		return []modTarget{{heap: "epoch", sort: SInt, all: true}}, nil
	}
	if id, ok := e.(*SIdent); ok {
		if gv, ok := fr.vc.sess.specs.Ghosts[id.Name]; ok {
			_, gs, err := env.ghostType(gv)
			if err != nil {
				return nil, err
			}
			return []modTarget{{heap: "ghost_" + id.Name, sort: gs, all: true}}, nil
		}
	}
	v, err := env.eval(e)
	if err != nil {
		return nil, err
	}
	if v.Loc == nil {
		return nil, fmt.Errorf("modifies target %s is not a location", e)
	}
	return env.targetsOfLoc(v.Loc), nil
}

func (env *Env) targetsOfLoc(loc *Loc) []modTarget {
	te := env.te()
	switch loc.Kind {
	case "field", "cell":
		return []modTarget{{heap: loc.Heap, sort: arraySort(SInt, te.SortOf(loc.Typ)), base: loc.Base}}
	case "elem":
		return []modTarget{{heap: loc.Heap, sort: arraySort(SInt, arraySort(SInt, te.SortOf(loc.Typ))), base: loc.Base}}
	case "global":
		return []modTarget{{heap: loc.Heap, sort: te.SortOf(loc.Typ), all: true}}
	case "obj":
		var ts []modTarget
		if te.isStructVal(loc.Typ) {
			st := loc.Typ.Underlying().(*types.Struct)
			for i := 0; i < st.NumFields(); i++ {
				ts = append(ts, env.targetsOfLoc(te.FieldLoc(loc.Typ, i, loc.Base))...)
			}
		} else if a, ok := isArray(loc.Typ); ok {
			if te.isAggregate(a.Elem()) {
				out := map[string]string{}
				env.fr.staticHeapsOfType(a.Elem(), out, false)
				for _, h := range sortedKeys(out) {
					ts = append(ts, modTarget{heap: h, sort: out[h], all: true})
				}
			} else {
				ts = append(ts, modTarget{heap: te.elemHeap(a.Elem()), sort: arraySort(SInt, arraySort(SInt, te.SortOf(a.Elem()))), base: loc.Base})
			}
		}
		return ts
	}
	return nil
}

// patternTerm turns the term a spec trigger evaluates to into a legal SMT pattern: patterns may not contain boolean
// connectives or ite, which the translation of a Go expression introduces (a map index is "present ? value : zero").  The
// largest connective-free sub-term that mentions a bound variable is used instead.
func patternTerm(t string, bound []string) string {
	bad := func(x string) bool {
		for _, op := range []string{"(ite ", "(and ", "(or ", "(not ", "(=> ", "(= ", "(<= ", "(< ", "(>= ", "(> ", "(distinct "} {
			if strings.Contains(x, op) {
				return true
			}
		}
		return false
	}
	mentions := func(x string) bool {
		for _, b := range bound {
			if containsSymbol(x, b) {
				return true
			}
		}
		return false
	}
	if !bad(t) {
		return t
	}
	best := ""
	var walk func(x string)
	walk = func(x string) {
		if !strings.HasPrefix(x, "(") {
			return
		}
		if !bad(x) && mentions(x) {
			if len(x) > len(best) {
				best = x
			}
			return
		}
		for _, p := range splitSexp(x[1 : len(x)-1])[1:] {
			walk(p)
		}
	}
	walk(t)
	if best == "" {
		return t
	}
	return best
}

func containsSymbol(x, sym string) bool {
	for i := 0; ; {
		j := strings.Index(x[i:], sym)
		if j < 0 {
			return false
		}
		j += i
		e := j + len(sym)
		okL := j == 0 || strings.ContainsRune(" ()", rune(x[j-1]))
		okR := e == len(x) || strings.ContainsRune(" ()", rune(x[e]))
		if okL && okR {
			return true
		}
		i = e
	}
}
