package main

import (
	"fmt"
	"strconv"
	"strings"
	"unicode"
)

// ---- spec expression AST ----

type SExpr interface{ String() string }

type (
	SIdent  struct{ Name string }
	SNum    struct{ Val string }
	SStrLit struct{ Val string }
	SBin    struct {
		Op   string
		L, R SExpr
	}
	SUn struct {
		Op string
		X  SExpr
	}
	SCall struct {
		Fun  SExpr
		Args []SExpr
	}
	SSel struct {
		X   SExpr
		Sel string
	}
	SIndex struct{ X, I SExpr }
	SSliceE struct{ X, Lo, Hi SExpr }
	SVar   struct {
		Name string
		Type *STypeE
	}
	SQuant struct {
		Forall bool
		Seq    bool // seqof k int :: e  (a total sequence k -> e as an SMT array)
		Vars   []SVar
		Body   SExpr
		Trig   []SExpr // optional instantiation pattern {t1, t2}
	}
	SCond struct{ C, A, B SExpr }
	// SZero is T{} (zero composite literal).
	SZero struct{ Type *STypeE }
	// STypeE is a type expression.
	STypeE struct {
		Kind string // "name", "ptr", "slice", "map", "array"
		Pkg  string
		Name string
		Elem *STypeE
		Key  *STypeE
		N    string
	}
)

func (e *SIdent) String() string  { return e.Name }
func (e *SNum) String() string    { return e.Val }
func (e *SStrLit) String() string { return strconv.Quote(e.Val) }
func (e *SBin) String() string    { return "(" + e.L.String() + " " + e.Op + " " + e.R.String() + ")" }
func (e *SUn) String() string     { return e.Op + e.X.String() }
func (e *SCall) String() string {
	var as []string
	for _, a := range e.Args {
		as = append(as, a.String())
	}
	return e.Fun.String() + "(" + strings.Join(as, ", ") + ")"
}
func (e *SSel) String() string   { return e.X.String() + "." + e.Sel }
func (e *SIndex) String() string { return e.X.String() + "[" + e.I.String() + "]" }
func (e *SSliceE) String() string {
	lo, hi := "", ""
	if e.Lo != nil {
		lo = e.Lo.String()
	}
	if e.Hi != nil {
		hi = e.Hi.String()
	}
	return e.X.String() + "[" + lo + ":" + hi + "]"
}
func (e *SQuant) String() string {
	q := "exists"
	if e.Forall {
		q = "forall"
	}
	if e.Seq {
		q = "seqof"
	}
	var vs []string
	for _, v := range e.Vars {
		vs = append(vs, v.Name+" "+v.Type.String())
	}
	return "(" + q + " " + strings.Join(vs, ", ") + " :: " + e.Body.String() + ")"
}
func (e *SCond) String() string {
	return "(" + e.C.String() + " ? " + e.A.String() + " : " + e.B.String() + ")"
}
func (e *SZero) String() string { return e.Type.String() + "{}" }
func (t *STypeE) String() string {
	switch t.Kind {
	case "ptr":
		return "*" + t.Elem.String()
	case "slice":
		return "[]" + t.Elem.String()
	case "array":
		return "[" + t.N + "]" + t.Elem.String()
	case "map":
		return "map[" + t.Key.String() + "]" + t.Elem.String()
	}
	if t.Pkg != "" {
		return t.Pkg + "." + t.Name
	}
	return t.Name
}

// ---- lexer ----

type tok struct {
	kind string // "id", "num", "str", "char", "op", "eof"
	val  string
	pos  int
}

func lexSpec(src string) ([]tok, error) {
	var toks []tok
	i := 0
	ops := []string{"<==>", "==>", "::", "&&", "||", "==", "!=", "<=", ">=", "<<", ">>", "&^",
		"+", "-", "*", "/", "%", "<", ">", "!", "(", ")", "[", "]", "{", "}", ",", ".", ":", "?", "&", "|", "^", "#", "=", ";"}
	for i < len(src) {
		c := src[i]
		if c == ' ' || c == '\t' || c == '\n' {
			i++
			continue
		}
		if c == '/' && i+1 < len(src) && src[i+1] == '/' {
			break // trailing comment
		}
		if unicode.IsLetter(rune(c)) || c == '_' || c == '#' {
			j := i + 1
			for j < len(src) && (unicode.IsLetter(rune(src[j])) || unicode.IsDigit(rune(src[j])) || src[j] == '_') {
				j++
			}
			toks = append(toks, tok{"id", src[i:j], i})
			i = j
			continue
		}
		if unicode.IsDigit(rune(c)) {
			j := i + 1
			for j < len(src) && (unicode.IsDigit(rune(src[j])) || src[j] == 'x' || src[j] == '_' || (src[j] >= 'a' && src[j] <= 'f') || (src[j] >= 'A' && src[j] <= 'F')) {
				j++
			}
			toks = append(toks, tok{"num", src[i:j], i})
			i = j
			continue
		}
		if c == '"' {
			j := i + 1
			for j < len(src) && src[j] != '"' {
				if src[j] == '\\' {
					j++
				}
				j++
			}
			if j >= len(src) {
				return nil, fmt.Errorf("unterminated string at %d", i)
			}
			s, err := strconv.Unquote(src[i : j+1])
			if err != nil {
				return nil, fmt.Errorf("bad string %s: %v", src[i:j+1], err)
			}
			toks = append(toks, tok{"str", s, i})
			i = j + 1
			continue
		}
		if c == '\'' {
			j := i + 1
			for j < len(src) && src[j] != '\'' {
				if src[j] == '\\' {
					j++
				}
				j++
			}
			r, _, _, err := strconv.UnquoteChar(src[i+1:j], '\'')
			if err != nil {
				return nil, fmt.Errorf("bad char %s: %v", src[i:j+1], err)
			}
			toks = append(toks, tok{"num", strconv.Itoa(int(r)), i})
			i = j + 1
			continue
		}
		matched := false
		for _, op := range ops {
			if strings.HasPrefix(src[i:], op) {
				toks = append(toks, tok{"op", op, i})
				i += len(op)
				matched = true
				break
			}
		}
		if !matched {
			return nil, fmt.Errorf("unexpected character %q at %d in %q", c, i, src)
		}
	}
	toks = append(toks, tok{"eof", "", len(src)})
	return toks, nil
}

// ---- parser ----

type sparser struct {
	toks []tok
	p    int
	src  string
}

func ParseSpecExpr(src string) (e SExpr, err error) {
	toks, err := lexSpec(src)
	if err != nil {
		return nil, err
	}
	ps := &sparser{toks: toks, src: src}
	defer func() {
		if r := recover(); r != nil {
			if pe, ok := r.(parseErr); ok {
				err = fmt.Errorf("spec parse error: %s in %q", string(pe), src)
				return
			}
			panic(r)
		}
	}()
	e = ps.expr()
	if ps.cur().kind != "eof" {
		ps.fail("unexpected token %q", ps.cur().val)
	}
	return e, nil
}

type parseErr string

func (ps *sparser) fail(f string, a ...any) { panic(parseErr(fmt.Sprintf(f, a...))) }
func (ps *sparser) cur() tok                { return ps.toks[ps.p] }
func (ps *sparser) peek(n int) tok {
	if ps.p+n < len(ps.toks) {
		return ps.toks[ps.p+n]
	}
	return ps.toks[len(ps.toks)-1]
}
func (ps *sparser) isOp(v string) bool { t := ps.cur(); return t.kind == "op" && t.val == v }
func (ps *sparser) accept(v string) bool {
	if ps.isOp(v) {
		ps.p++
		return true
	}
	return false
}
func (ps *sparser) expect(v string) {
	if !ps.accept(v) {
		ps.fail("expected %q, got %q", v, ps.cur().val)
	}
}

func (ps *sparser) expr() SExpr { return ps.iff() }

func (ps *sparser) iff() SExpr {
	l := ps.implies()
	for ps.accept("<==>") {
		r := ps.implies()
		l = &SBin{"<==>", l, r}
	}
	return l
}

func (ps *sparser) implies() SExpr {
	l := ps.cond()
	if ps.accept("==>") {
		r := ps.implies()
		return &SBin{"==>", l, r}
	}
	return l
}

func (ps *sparser) cond() SExpr {
	c := ps.or()
	if ps.accept("?") {
		a := ps.cond()
		ps.expect(":")
		b := ps.cond()
		return &SCond{c, a, b}
	}
	return c
}

func (ps *sparser) or() SExpr {
	l := ps.and()
	for ps.accept("||") {
		l = &SBin{"||", l, ps.and()}
	}
	return l
}

func (ps *sparser) and() SExpr {
	l := ps.cmp()
	for ps.accept("&&") {
		l = &SBin{"&&", l, ps.cmp()}
	}
	return l
}

func (ps *sparser) cmp() SExpr {
	l := ps.add()
	for {
		t := ps.cur()
		if t.kind == "op" {
			switch t.val {
			case "==", "!=", "<", "<=", ">", ">=":
				ps.p++
				l = &SBin{t.val, l, ps.add()}
				continue
			}
		}
		if t.kind == "id" && t.val == "in" {
			ps.p++
			l = &SBin{"in", l, ps.add()}
			continue
		}
		if t.kind == "op" && t.val == "!" && ps.peek(1).kind == "id" && ps.peek(1).val == "in" {
			ps.p += 2
			l = &SUn{"!", &SBin{"in", l, ps.add()}}
			continue
		}
		return l
	}
}

func (ps *sparser) add() SExpr {
	l := ps.mul()
	for {
		t := ps.cur()
		if t.kind == "op" && (t.val == "+" || t.val == "-" || t.val == "|" || t.val == "^") {
			ps.p++
			l = &SBin{t.val, l, ps.mul()}
			continue
		}
		return l
	}
}

func (ps *sparser) mul() SExpr {
	l := ps.unary()
	for {
		t := ps.cur()
		if t.kind == "op" && (t.val == "*" || t.val == "/" || t.val == "%" || t.val == "&" || t.val == "<<" || t.val == ">>" || t.val == "&^") {
			ps.p++
			l = &SBin{t.val, l, ps.unary()}
			continue
		}
		if t.kind == "id" && (t.val == "div" || t.val == "mod") {
			ps.p++
			l = &SBin{t.val, l, ps.unary()}
			continue
		}
		return l
	}
}

func (ps *sparser) unary() SExpr {
	t := ps.cur()
	if t.kind == "op" {
		switch t.val {
		case "!", "-", "*", "&":
			ps.p++
			return &SUn{t.val, ps.unary()}
		}
	}
	return ps.postfix()
}

func (ps *sparser) postfix() SExpr {
	e := ps.primary()
	for {
		switch {
		case ps.accept("."):
			t := ps.cur()
			if t.kind == "op" && t.val == "(" {
				// type assertion x.(T): not supported
				ps.fail("type assertion not supported")
			}
			if t.kind != "id" {
				ps.fail("expected selector, got %q", t.val)
			}
			ps.p++
			e = &SSel{e, t.val}
		case ps.accept("("):
			var args []SExpr
			for !ps.isOp(")") {
				args = append(args, ps.expr())
				if !ps.accept(",") {
					break
				}
			}
			ps.expect(")")
			e = &SCall{e, args}
		case ps.accept("["):
			var lo, hi SExpr
			if ps.isOp(":") {
				ps.p++
				if !ps.isOp("]") {
					hi = ps.expr()
				}
				ps.expect("]")
				e = &SSliceE{e, nil, hi}
				continue
			}
			lo = ps.expr()
			if ps.accept(":") {
				if !ps.isOp("]") {
					hi = ps.expr()
				}
				ps.expect("]")
				e = &SSliceE{e, lo, hi}
				continue
			}
			ps.expect("]")
			e = &SIndex{e, lo}
		case ps.isOp("{") && ps.peek(1).kind == "op" && ps.peek(1).val == "}":
			// T{} zero literal
			te := exprToType(e)
			if te == nil {
				return e
			}
			ps.p += 2
			e = &SZero{te}
		default:
			return e
		}
	}
}

func exprToType(e SExpr) *STypeE {
	switch e := e.(type) {
	case *SIdent:
		return &STypeE{Kind: "name", Name: e.Name}
	case *SSel:
		if id, ok := e.X.(*SIdent); ok {
			return &STypeE{Kind: "name", Pkg: id.Name, Name: e.Sel}
		}
	case *SUn:
		if e.Op == "*" {
			if el := exprToType(e.X); el != nil {
				return &STypeE{Kind: "ptr", Elem: el}
			}
		}
	}
	return nil
}

func (ps *sparser) primary() SExpr {
	t := ps.cur()
	switch t.kind {
	case "num":
		ps.p++
		return &SNum{t.val}
	case "str":
		ps.p++
		return &SStrLit{t.val}
	case "id":
		if t.val == "forall" || t.val == "exists" || t.val == "seqof" {
			ps.p++
			q := &SQuant{Forall: t.val == "forall", Seq: t.val == "seqof"}
			for {
				n := ps.cur()
				if n.kind != "id" {
					ps.fail("expected bound variable name")
				}
				ps.p++
				ty := ps.typeExpr()
				q.Vars = append(q.Vars, SVar{n.val, ty})
				if !ps.accept(",") {
					break
				}
			}
			ps.expect("::")
			if ps.cur().kind == "op" && ps.cur().val == "{" {
				ps.p++
				for {
					q.Trig = append(q.Trig, ps.expr())
					if !ps.accept(",") {
						break
					}
				}
				ps.expect("}")
			}
			q.Body = ps.expr()
			return q
		}
		ps.p++
		return &SIdent{t.val}
	case "op":
		if t.val == "(" {
			ps.p++
			e := ps.expr()
			ps.expect(")")
			return e
		}
	}
	ps.fail("unexpected token %q", t.val)
	return nil
}

func (ps *sparser) typeExpr() *STypeE {
	switch {
	case ps.accept("*"):
		return &STypeE{Kind: "ptr", Elem: ps.typeExpr()}
	case ps.accept("["):
		if ps.accept("]") {
			return &STypeE{Kind: "slice", Elem: ps.typeExpr()}
		}
		n := ps.cur()
		ps.p++
		ps.expect("]")
		return &STypeE{Kind: "array", N: n.val, Elem: ps.typeExpr()}
	}
	t := ps.cur()
	if t.kind != "id" {
		ps.fail("expected type, got %q", t.val)
	}
	ps.p++
	if t.val == "map" {
		ps.expect("[")
		k := ps.typeExpr()
		ps.expect("]")
		return &STypeE{Kind: "map", Key: k, Elem: ps.typeExpr()}
	}
	if ps.isOp(".") && ps.peek(1).kind == "id" {
		ps.p++
		n := ps.cur()
		ps.p++
		return &STypeE{Kind: "name", Pkg: t.val, Name: n.val}
	}
	return &STypeE{Kind: "name", Name: t.val}
}

// ParseTypeExpr parses a standalone type expression.
func ParseTypeExpr(src string) (t *STypeE, rest string, err error) {
	toks, err := lexSpec(src)
	if err != nil {
		return nil, "", err
	}
	ps := &sparser{toks: toks, src: src}
	defer func() {
		if r := recover(); r != nil {
			if pe, ok := r.(parseErr); ok {
				err = fmt.Errorf("type parse error: %s in %q", string(pe), src)
				return
			}
			panic(r)
		}
	}()
	t = ps.typeExpr()
	return t, src[ps.cur().pos:], nil
}
