package main

import (
	"context"
	"encoding/json"
	"fmt"
	"os"
	"os/exec"
	"path/filepath"
	"strings"
	"time"
)

type replayDriver struct {
	PkgDir string `json:"pkg_dir"` // e.g. internal/querylog
	File   string `json:"file"`    // relative to /verif/replay
	Test   string `json:"test"`
	Race   bool   `json:"race"` // run under the race detector; a reported race (or runtime map-race crash) reproduces
	Kind   string `json:"kind"` // "search": the driver looks for a failing input in a small family instead of using the solver's model
}

var mutantOverlay map[string]string // set when govc runs on an overlay (selftest)

// runReplayDriver replays a counter-model on the real code through a hand-written driver, if one exists for the function.
// The driver is an in-package Go test injected with `go test -overlay`; it reads the replay JSON (env GOVC_REPLAY),
// builds the inputs, calls the real function, evaluates the contract's predicate and prints GOVC-REPRODUCED or GOVC-NOT-REPRODUCED.
func runReplayDriver(s *Session, verif, prop string, r *OblResult, replayPath string) bool {
	data, err := os.ReadFile(filepath.Join(verif, "replay", "drivers.json"))
	if err != nil {
		return false
	}
	var drivers map[string]replayDriver
	if json.Unmarshal(data, &drivers) != nil {
		return false
	}
	d, ok := drivers[r.Func]
	if !ok {
		return false
	}
	ov := map[string]map[string]string{"Replace": {}}
	for k, v := range mutantOverlay {
		ov["Replace"][k] = v
	}
	ov["Replace"][filepath.Join(s.repo, d.PkgDir, "zz_govc_replay_test.go")] = filepath.Join(verif, "replay", d.File)
	ovPath := replayPath + ".overlay.json"
	b, _ := json.Marshal(ov)
	os.WriteFile(ovPath, b, 0o644)
	ctx, cancel := context.WithTimeout(context.Background(), 180*time.Second)
	defer cancel()
	args := []string{"test", "-v", "-overlay", ovPath, "-vet=off", "-count=1", "-timeout", "120s", "-run", "^" + d.Test + "$", "./" + d.PkgDir + "/"}
	if d.Race {
		args = append([]string{"test", "-race"}, args[1:]...)
	}
	cmd := exec.CommandContext(ctx, "go", args...)
	cmd.Dir = s.repo
	cmd.Env = append(os.Environ(), "GOFLAGS=-mod=mod", "GOPROXY=off", "GOVC_REPLAY="+replayPath)
	out, _ := cmd.CombinedOutput()
	text := string(out)
	reproduced := strings.Contains(text, "GOVC-REPRODUCED")
	if d.Race && (strings.Contains(text, "WARNING: DATA RACE") || strings.Contains(text, "concurrent map")) {
		reproduced = true
	}
	// update replay file
	var m map[string]any
	if rd, err := os.ReadFile(replayPath); err == nil && json.Unmarshal(rd, &m) == nil {
		m["reproduced"] = reproduced
		if d.Kind == "search" {
			m["replay_kind"] = "search: the solver gave no readable model for this (quantified) obligation; the driver ran the real functions on a small family of inputs and reports the first ones that contradict the contract"
		} else {
			m["replay_kind"] = "model: inputs built from the solver's counter-model"
		}
		m["replay_cmd"] = fmt.Sprintf("cd %s && GOVC_REPLAY=%s go test -overlay %s -vet=off -count=1 -run '^%s$' ./%s/", s.repo, replayPath, ovPath, d.Test, d.PkgDir)
		m["replay_output"] = truncate(text, 6000)
		nb, _ := json.MarshalIndent(m, "", " ")
		os.WriteFile(replayPath, nb, 0o644)
	}
	return reproduced
}
