package main

import (
	"fmt"
	"go/types"

	"golang.org/x/tools/go/ssa"
)

// lockHeld returns the ghost predicate "the lock at loc is held (for writing, or reading if r) by this goroutine".
func (fr *Frame) lockHeld(st *State, loc *Loc, r bool) Term {
	name := "ghost_LockW"
	if r {
		name = "ghost_LockR"
	}
	h := st.Get(name, arraySort(SInt, SBool))
	return tSelect(h, fr.lockRef(loc))
}

func (fr *Frame) lockRef(loc *Loc) Term {
	switch loc.Kind {
	case "obj", "cell":
		return loc.Base
	}
	return fr.opaquePtr(loc)
}

// guardedAccess emits the lock-discipline obligation for an access to a field declared `guarded T.f by mu`.
func (fr *Frame) guardedAccess(ins *ssa.FieldAddr, st types.Type, base Term) {
	sess := fr.vc.sess
	if !sess.lockSweep {
		return
	}
	if top := fr.vc.top; top != nil && top.contract != nil && top.contract.Construction {
		return
	}
	named, ok := types.Unalias(st).(*types.Named)
	if !ok || named.Obj().Pkg() == nil {
		return
	}
	stt := st.Underlying().(*types.Struct)
	fname := stt.Field(ins.Field).Name()
	for _, g := range sess.specs.Guards {
		if g.Pkg != named.Obj().Pkg().Path() || g.Type != named.Obj().Name() || g.Field != fname {
			continue
		}
		// lock field
		li := -1
		for i := 0; i < stt.NumFields(); i++ {
			if stt.Field(i).Name() == g.Lock {
				li = i
			}
		}
		if li < 0 {
			sess.fatalf("guarded %s.%s by %s: no such lock field", g.Type, g.Field, g.Lock)
		}
		lloc := fr.te().FieldLoc(st, li, base)
		var lref Term
		if derefType(lloc.Typ) != nil {
			lref = fr.te().Load(fr.cur, lloc) // pointer to a mutex
		} else {
			lref = fr.lockRef(lloc)
		}
		w := tSelect(fr.cur.Get("ghost_LockW", arraySort(SInt, SBool)), lref)
		r := tSelect(fr.cur.Get("ghost_LockR", arraySort(SInt, SBool)), lref)
		write := isWriteAccess(ins)
		cond := tOr(w, r)
		what := "read"
		if write {
			cond = w
			what = "write"
		}
		// objects allocated by this function (not yet published) are exempt
		cond = tOr(cond, Term{fmt.Sprintf("(not (old_alloc %s))", fr.rootOf(base).S), SBool})
		p := fr.pos(ins)
		name := fmt.Sprintf("lock:%s.%s@%s", g.Type, g.Field, fr.fn.Name())
		fr.vc.oblige(name, fr.curReach, cond, fmt.Sprintf("%s of %s.%s with %s held", what, g.Type, g.Field, g.Lock), p)
	}
}

// isWriteAccess reports whether the field address is stored through, or the loaded map/slice is updated.
func isWriteAccess(fa *ssa.FieldAddr) bool {
	refs := fa.Referrers()
	if refs == nil {
		return false
	}
	for _, r := range *refs {
		switch r := r.(type) {
		case *ssa.Store:
			if r.Addr == ssa.Value(fa) {
				return true
			}
		case *ssa.UnOp:
			if lr := r.Referrers(); lr != nil {
				for _, u := range *lr {
					switch u := u.(type) {
					case *ssa.MapUpdate:
						if u.Map == ssa.Value(r) {
							return true
						}
					case *ssa.Call:
						if b, ok := u.Call.Value.(*ssa.Builtin); ok && (b.Name() == "delete" || b.Name() == "clear") && len(u.Call.Args) > 0 && u.Call.Args[0] == ssa.Value(r) {
							return true
						}
					}
				}
			}
		}
	}
	return false
}
