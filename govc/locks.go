package main

// lockHeld returns the ghost predicate "the lock at loc is held (for writing, or reading if r) by this goroutine".
func (fr *Frame) lockHeld(st *State, loc *Loc, r bool) Term {
	name := "ghost_LockW"
	if r {
		name = "ghost_LockR"
	}
	h := st.Get(name, arraySort(SInt, SBool))
	return tSelect(h, fr.lockRef(loc))
}

func (fr *Frame) lockRef(loc *Loc) Term {
	switch loc.Kind {
	case "obj", "cell":
		return loc.Base
	}
	return fr.opaquePtr(loc)
}
