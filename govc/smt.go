package main

import (
	"fmt"
	"sort"
	"strings"
)

// Term is an SMT-LIB expression together with its sort.
type Term struct {
	S    string
	Sort string
}

func (t Term) String() string { return t.S }

const (
	SInt   = "Int"
	SBool  = "Bool"
	SStr   = "Str"
	SSlice = "Slice"
	SIface = "Iface"
	STime  = "Time"
	SFloat = "Float"
)

func app(op string, args ...string) string {
	if len(args) == 0 {
		return op
	}
	return "(" + op + " " + strings.Join(args, " ") + ")"
}

func tInt(n int64) Term {
	if n < 0 {
		return Term{fmt.Sprintf("(- %d)", -n), SInt}
	}
	return Term{fmt.Sprintf("%d", n), SInt}
}

func tIntS(s string) Term {
	if strings.HasPrefix(s, "-") {
		return Term{"(- " + s[1:] + ")", SInt}
	}
	return Term{s, SInt}
}

var tTrue = Term{"true", SBool}
var tFalse = Term{"false", SBool}

func tBool(b bool) Term {
	if b {
		return tTrue
	}
	return tFalse
}

func tAnd(ts ...Term) Term {
	var parts []string
	for _, t := range ts {
		if t.S == "true" {
			continue
		}
		if t.S == "false" {
			return tFalse
		}
		if strings.HasPrefix(t.S, "(and ") {
			// flatten: conjunctions built up pairwise stay one flat list (they are split conjunct-wise later)
			parts = append(parts, splitSexp(t.S[1 : len(t.S)-1])[1:]...)
			continue
		}
		parts = append(parts, t.S)
	}
	switch len(parts) {
	case 0:
		return tTrue
	case 1:
		return Term{parts[0], SBool}
	}
	return Term{app("and", parts...), SBool}
}

func tOr(ts ...Term) Term {
	var parts []string
	for _, t := range ts {
		if t.S == "false" {
			continue
		}
		if t.S == "true" {
			return tTrue
		}
		parts = append(parts, t.S)
	}
	switch len(parts) {
	case 0:
		return tFalse
	case 1:
		return Term{parts[0], SBool}
	}
	return Term{app("or", parts...), SBool}
}

func tNot(t Term) Term {
	switch t.S {
	case "true":
		return tFalse
	case "false":
		return tTrue
	}
	if strings.HasPrefix(t.S, "(not ") && strings.HasSuffix(t.S, ")") && balanced(t.S[5:len(t.S)-1]) {
		return Term{t.S[5 : len(t.S)-1], SBool}
	}
	return Term{app("not", t.S), SBool}
}

func balanced(s string) bool {
	d := 0
	for i, c := range s {
		switch c {
		case '(':
			d++
		case ')':
			d--
			if d < 0 {
				return false
			}
			if d == 0 && i != len(s)-1 {
				return false
			}
		case ' ':
			if d == 0 {
				return false
			}
		}
	}
	return d == 0
}

func tImp(a, b Term) Term {
	if a.S == "true" {
		return b
	}
	if a.S == "false" || b.S == "true" {
		return tTrue
	}
	return Term{app("=>", a.S, b.S), SBool}
}

func tEq(a, b Term) Term {
	if a.S == b.S {
		return tTrue
	}
	return Term{app("=", a.S, b.S), SBool}
}

func tIte(c, a, b Term) Term {
	if c.S == "true" {
		return a
	}
	if c.S == "false" {
		return b
	}
	if a.S == b.S {
		return a
	}
	return Term{app("ite", c.S, a.S, b.S), a.Sort}
}

func tSelect(arr Term, idx Term) Term {
	// read-over-write at the syntactically same index, looking through names introduced by FnVC.define: the value of a
	// variable that lives in a cell (captured by a closure, address taken) is then the stored term itself
	a := arr.S
	for depth := 0; depth < 4; depth++ {
		body := a
		if b, ok := defBodies[a]; ok {
			body = b
		}
		if !strings.HasPrefix(body, "(store ") {
			break
		}
		parts := splitSexp(body[1 : len(body)-1])
		if len(parts) != 4 {
			break
		}
		if parts[2] == idx.S {
			return Term{parts[3], arrayElemSort(arr.Sort)}
		}
		break
	}
	return Term{app("select", arr.S, idx.S), arrayElemSort(arr.Sort)}
}

func tStore(arr Term, idx Term, v Term) Term {
	return Term{app("store", arr.S, idx.S, v.S), arr.Sort}
}

func arraySort(idx, elem string) string { return "(Array " + idx + " " + elem + ")" }

// arrayElemSort returns E for "(Array I E)".
func arrayElemSort(s string) string {
	_, e := splitArraySort(s)
	return e
}

func splitArraySort(s string) (idx, elem string) {
	if !strings.HasPrefix(s, "(Array ") {
		panic("not an array sort: " + s)
	}
	body := s[len("(Array ") : len(s)-1]
	// split the first sort
	d := 0
	for i, c := range body {
		switch c {
		case '(':
			d++
		case ')':
			d--
		case ' ':
			if d == 0 {
				return body[:i], body[i+1:]
			}
		}
	}
	panic("bad array sort: " + s)
}

// Prelude collects global declarations (sorts, datatypes, functions, axioms) in order, deduplicated by key.
type Prelude struct {
	keys    map[string]bool
	lines   []string
	entries []preEntry
}

type preEntry struct {
	key   string
	line  string
	names []string // declared symbols (declarations) or trigger symbol (axioms)
	axiom bool
	toks  []string
}

func NewPrelude() *Prelude {
	p := &Prelude{keys: map[string]bool{}}
	p.Add("sort:Str", "(declare-sort Str 0)")
	p.Add("sort:Float", "(declare-sort Float 0)")
	p.Add("dt:Slice", "(declare-datatypes ((Slice 0)) (((mkSlice (sarr Int) (soff Int) (slen Int) (scap Int)))))")
	p.Add("dt:Iface", "(declare-datatypes ((Iface 0)) (((mkIface (itag Int) (ival Int)))))")
	p.Add("dt:Time", "(declare-datatypes ((Time 0)) (((mkTime (tinst Int) (tloc Int)))))")
	p.Add("fn:s_len", "(declare-fun s_len (Str) Int)")
	p.Add("fn:s_at", "(declare-fun s_at (Str Int) Int)")
	p.Add("ax:s_len", "(assert (forall ((s Str)) (! (>= (s_len s) 0) :pattern ((s_len s)))))")
	p.Add("const:s_empty", "(declare-const s_empty Str)")
	p.Add("ax:s_empty", "(assert (= (s_len s_empty) 0))")
	p.Add("ax:s_empty#2", "(assert (forall ((s Str)) (! (=> (= (s_len s) 0) (= s s_empty)) :pattern ((s_len s)))))")
	// atime(r): allocation time of reference r on the verified function's clock (0 = allocated before entry)
	p.Add("fn:atime", "(declare-fun atime (Int) Int)")
	p.Add("fn:old_alloc", "(define-fun old_alloc ((x Int)) Bool (<= (atime x) 0))")
	p.Add("ax:atime#0", "(assert (= (atime 0) 0))")
	return p
}

func (p *Prelude) Has(key string) bool { return p.keys[key] }

func (p *Prelude) Add(key, line string) {
	if p.keys[key] {
		return
	}
	p.keys[key] = true
	p.lines = append(p.lines, line)
	e := preEntry{key: key, line: line, toks: smtTokens(line)}
	if strings.HasPrefix(key, "ax:") {
		e.axiom = true
		t := key[3:]
		if i := strings.LastIndex(t, "#"); i >= 0 {
			t = t[:i]
		}
		e.names = []string{smtName(t)}
	} else if strings.HasPrefix(line, "(declare-datatypes") {
		for _, t := range e.toks {
			switch t {
			case "declare-datatypes", "Int", "Bool", "Array", "0", "Str", "Float", "Slice", "Iface", "Time":
				if t == e.toks[1] {
					e.names = append(e.names, t)
				}
			default:
				e.names = append(e.names, t)
			}
		}
	} else if len(e.toks) >= 2 {
		e.names = []string{e.toks[1]}
	}
	p.entries = append(p.entries, e)
}

// smtTokens splits SMT text into symbols.
func smtTokens(s string) []string {
	var out []string
	i := 0
	for i < len(s) {
		c := s[i]
		switch {
		case c == '(' || c == ')' || c == ' ' || c == '\n' || c == '\t':
			i++
		case c == ';':
			for i < len(s) && s[i] != '\n' {
				i++
			}
		case c == '|':
			j := strings.IndexByte(s[i+1:], '|')
			if j < 0 {
				return append(out, s[i:])
			}
			out = append(out, s[i:i+j+2])
			i += j + 2
		default:
			j := i
			for j < len(s) && s[j] != '(' && s[j] != ')' && s[j] != ' ' && s[j] != '\n' && s[j] != '\t' {
				j++
			}
			out = append(out, s[i:j])
			i = j
		}
	}
	return out
}

// For returns the part of the prelude relevant to body: declarations of used symbols and axioms whose trigger symbol is used.
func (p *Prelude) For(body string) string { return p.ForExcl(body, nil) }

// ForExcl is For without the axioms whose name is in excl (a lemma is proved without itself and later lemmas).
func (p *Prelude) ForExcl(body string, excl map[string]bool) string {
	used := map[string]bool{}
	for _, t := range smtTokens(body) {
		used[t] = true
	}
	inc := make([]bool, len(p.entries))
	for changed := true; changed; {
		changed = false
		for i, e := range p.entries {
			if inc[i] {
				continue
			}
			if e.axiom && len(excl) > 0 {
				if j := strings.LastIndex(e.key, "#"); j >= 0 && excl[e.key[j+1:]] {
					continue
				}
			}
			hit := false
			for _, n := range e.names {
				if used[n] {
					hit = true
					break
				}
			}
			if !hit {
				continue
			}
			inc[i] = true
			changed = true
			for _, t := range e.toks {
				used[t] = true
			}
		}
	}
	var b strings.Builder
	var lits []string
	for i, e := range p.entries {
		if inc[i] {
			b.WriteString(e.line)
			b.WriteByte('\n')
			if strings.HasPrefix(e.key, "const:strlit") || e.key == "const:s_empty" {
				lits = append(lits, e.key[len("const:"):])
			}
		}
	}
	if len(lits) > 1 {
		// string literals have pairwise different contents by construction (one constant per distinct literal)
		b.WriteString("(assert (distinct " + strings.Join(lits, " ") + "))\n")
	}
	return b.String()
}

func (p *Prelude) Text() string { return strings.Join(p.lines, "\n") + "\n" }

func (p *Prelude) Len() int { return len(p.lines) }

func sortedKeys[V any](m map[string]V) []string {
	ks := make([]string, 0, len(m))
	for k := range m {
		ks = append(ks, k)
	}
	sort.Strings(ks)
	return ks
}

func mangle(s string) string {
	var b strings.Builder
	for _, c := range s {
		switch {
		case c >= 'a' && c <= 'z', c >= 'A' && c <= 'Z', c >= '0' && c <= '9', c == '_':
			b.WriteRune(c)
		case c == '.', c == '/':
			b.WriteByte('_')
		case c == '*':
			b.WriteString("P")
		case c == '[':
			b.WriteString("L")
		case c == ']':
			b.WriteString("R")
		case c == ' ', c == ',':
			// skip
		default:
			fmt.Fprintf(&b, "x%02x", c)
		}
	}
	return b.String()
}
