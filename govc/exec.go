package main

import (
	"strings"
	"fmt"
	"go/token"
	"go/types"
	"sort"

	"golang.org/x/tools/go/ssa"
)

type retRec struct {
	reach Term
	vals  []Term
	st    *State
	pos   token.Pos
}

type deferRec struct {
	armed  Term
	call   *ssa.CallCommon
	args   []Term
	fnVal  Term
	instr  *ssa.Defer
	closur *closureInfo
}

type closureInfo struct {
	fn       *ssa.Function
	bindVals []Term
	bindLocs []*Loc
}

type rangeInfo struct {
	x      ssa.Value
	isMap  bool
	mapRef Term
	st     *State // state at Range
	seen   Term   // ghost seen-set (map) at loop header
	strVal Term
	pos    Term // string: current byte index
}

type loopInfo struct {
	header  *ssa.BasicBlock
	body    map[*ssa.BasicBlock]bool
	backs   []*ssa.BasicBlock // sources of back edges
	ordinal int
	// recorded at header processing:
	phiFresh map[*ssa.Phi]Term
	spec     *LoopSpec
	decrAtHeader Term
	stHeader *State
}

// Frame is one (possibly inlined) activation of a function.
type Frame struct {
	vc       *FnVC
	fn       *ssa.Function
	id       int
	depth    int
	parent   *Frame
	contract *Contract
	vals     map[ssa.Value]Term
	locs     map[ssa.Value]*Loc
	tuples   map[ssa.Value][]Term
	knownLen map[ssa.Value]int64
	reach    map[*ssa.BasicBlock]Term
	exit     map[*ssa.BasicBlock]*State
	edge     map[*ssa.BasicBlock][]Term
	rets     []retRec
	defers   []*deferRec
	loops    map[*ssa.BasicBlock]*loopInfo
	subst    map[ssa.Value]Term
	closures map[ssa.Value]*closureInfo
	ranges   map[ssa.Value]*rangeInfo
	cur      *State // current state while executing a block
	curReach Term
	curBlock *ssa.BasicBlock
	curIdx   int
	oldState *State // state at function entry (for old())
	paramVals map[string]Term
	unescaped map[string]bool // alloc refs (term text) that have not escaped
	nullable map[ssa.Value]bool
	calleeTypeArgs map[string]types.Type // set while the contract of a generic callee is applied
	calleeFn       *ssa.Function         // set while the contract of a statically known callee is applied
	inDefer        bool                  // a deferred call is being executed (at a return)
}

var frameCounter int

func (vc *FnVC) newFrame(fn *ssa.Function, parent *Frame) *Frame {
	frameCounter++
	fr := &Frame{vc: vc, fn: fn, id: frameCounter, parent: parent,
		vals: map[ssa.Value]Term{}, locs: map[ssa.Value]*Loc{}, tuples: map[ssa.Value][]Term{}, knownLen: map[ssa.Value]int64{},
		reach: map[*ssa.BasicBlock]Term{}, exit: map[*ssa.BasicBlock]*State{}, edge: map[*ssa.BasicBlock][]Term{},
		loops: map[*ssa.BasicBlock]*loopInfo{}, closures: map[ssa.Value]*closureInfo{}, ranges: map[ssa.Value]*rangeInfo{},
		paramVals: map[string]Term{}, unescaped: map[string]bool{}, nullable: map[ssa.Value]bool{}}
	if parent != nil {
		fr.depth = parent.depth + 1
	}
	fr.contract = vc.sess.contractFor(fn)
	return fr
}

func (fr *Frame) te() *TypeEnv { return fr.vc.sess.te }

func (fr *Frame) vname(v ssa.Value) string {
	return fmt.Sprintf("f%d_%s", fr.id, v.Name())
}

// findLoops computes natural loops of the function.
func (fr *Frame) findLoops() {
	fn := fr.fn
	var headers []*ssa.BasicBlock
	for _, b := range fn.Blocks {
		for _, s := range b.Succs {
			if s.Dominates(b) {
				li := fr.loops[s]
				if li == nil {
					li = &loopInfo{header: s, body: map[*ssa.BasicBlock]bool{s: true}}
					fr.loops[s] = li
					headers = append(headers, s)
				}
				li.backs = append(li.backs, b)
				// natural loop: all blocks that reach b without going through s
				var stack []*ssa.BasicBlock
				if !li.body[b] {
					li.body[b] = true
					stack = append(stack, b)
				}
				for len(stack) > 0 {
					x := stack[len(stack)-1]
					stack = stack[:len(stack)-1]
					for _, p := range x.Preds {
						if !li.body[p] {
							li.body[p] = true
							stack = append(stack, p)
						}
					}
				}
			}
		}
	}
	sort.Slice(headers, func(i, j int) bool { return headers[i].Index < headers[j].Index })
	for i, h := range headers {
		fr.loops[h].ordinal = i + 1
		if fr.contract != nil {
			fr.loops[h].spec = fr.contract.Loops[i+1]
		}
	}
}

func (fr *Frame) isBackEdge(from, to *ssa.BasicBlock) bool {
	return to.Dominates(from)
}

// order returns the blocks in reverse post-order ignoring back edges.
func (fr *Frame) order() []*ssa.BasicBlock {
	fn := fr.fn
	seen := map[*ssa.BasicBlock]bool{}
	var post []*ssa.BasicBlock
	var dfs func(b *ssa.BasicBlock)
	dfs = func(b *ssa.BasicBlock) {
		seen[b] = true
		for _, s := range b.Succs {
			if fr.isBackEdge(b, s) || seen[s] {
				continue
			}
			dfs(s)
		}
		post = append(post, b)
	}
	if len(fn.Blocks) > 0 {
		dfs(fn.Blocks[0])
	}
	if fn.Recover != nil && !seen[fn.Recover] {
		// recover block is not executed in the model
	}
	for i, j := 0, len(post)-1; i < j; i, j = i+1, j-1 {
		post[i], post[j] = post[j], post[i]
	}
	return post
}

// run executes the function body symbolically. args are the parameter values (receiver first).
func (fr *Frame) run(entryReach Term, st *State, args []Term) (exitReach Term, results []Term, exitSt *State) {
	fn := fr.fn
	if len(fn.Blocks) == 0 {
		panic("run: function without body: " + fn.String())
	}
	for i, p := range fn.Params {
		if i < len(args) {
			fr.vals[p] = args[i]
			fr.paramVals[p.Name()] = args[i]
		}
	}
	fr.findLoops()
	if fr.oldState == nil {
		fr.oldState = st.clone()
	}
	ord := fr.order()
	for _, b := range ord {
		fr.execBlock(b, entryReach, st)
	}
	// merge returns
	if len(fr.rets) == 0 {
		return tFalse, nil, st
	}
	var conds []Term
	var states []*State
	for _, r := range fr.rets {
		conds = append(conds, r.reach)
		states = append(states, r.st)
	}
	exitReach = fr.vc.define(fmt.Sprintf("f%d_exit", fr.id), tOr(conds...))
	exitSt = mergeStates(fr.vc, states, conds)
	nres := fn.Signature.Results().Len()
	for k := 0; k < nres; k++ {
		v := fr.rets[len(fr.rets)-1].vals[k]
		for i := len(fr.rets) - 2; i >= 0; i-- {
			v = tIte(fr.rets[i].reach, fr.rets[i].vals[k], v)
		}
		results = append(results, fr.vc.define(fmt.Sprintf("f%d_res%d", fr.id, k), v))
	}
	return exitReach, results, exitSt
}

func (fr *Frame) execBlock(b *ssa.BasicBlock, entryReach Term, entrySt *State) {
	vc := fr.vc
	var reach Term
	var st *State
	var predConds []Term
	var preds []*ssa.BasicBlock
	if b.Index == 0 {
		reach = entryReach
		st = entrySt.clone()
	} else {
		var states []*State
		for _, p := range b.Preds {
			if fr.isBackEdge(p, b) {
				continue
			}
			pr, ok := fr.reach[p]
			if !ok {
				continue
			}
			// edge condition: p may have b as successor more than once
			var ec []Term
			for k, s := range p.Succs {
				if s == b {
					ec = append(ec, fr.edge[p][k])
				}
			}
			c := tAnd(pr, tOr(ec...))
			if len(ec) == 0 {
				continue
			}
			// avoid duplicates when p appears twice in Preds
			dup := false
			for _, q := range preds {
				if q == p {
					dup = true
				}
			}
			if dup {
				continue
			}
			predConds = append(predConds, c)
			preds = append(preds, p)
			states = append(states, fr.exit[p])
		}
		if len(preds) == 0 {
			return // unreachable
		}
		reach = vc.define(fmt.Sprintf("f%d_rb%d", fr.id, b.Index), tOr(predConds...))
		st = mergeStates(vc, states, predConds)
	}
	fr.reach[b] = reach
	fr.cur = st
	fr.curReach = reach
	fr.curBlock = b

	li := fr.loops[b]
	// phis
	for _, ins := range b.Instrs {
		phi, ok := ins.(*ssa.Phi)
		if !ok {
			break
		}
		var vals []Term
		var conds []Term
		for i, p := range b.Preds {
			if fr.isBackEdge(p, b) {
				continue
			}
			idx := -1
			for k, q := range preds {
				if q == p {
					idx = k
				}
			}
			if idx < 0 {
				continue
			}
			vals = append(vals, fr.val(phi.Edges[i]))
			conds = append(conds, predConds[idx])
		}
		if len(vals) == 0 {
			fr.vals[phi] = fr.havocVal(phi.Type(), fr.vname(phi))
			continue
		}
		v := vals[len(vals)-1]
		for i := len(vals) - 2; i >= 0; i-- {
			v = tIte(conds[i], vals[i], v)
		}
		fr.vals[phi] = vc.define(fr.vname(phi), v)
		if l, ok := fr.locs[phi.Edges[0]]; ok && len(vals) == 1 {
			fr.locs[phi] = l
		}
	}
	if li != nil {
		fr.loopHeader(li)
	}
	for i, ins := range b.Instrs {
		if _, ok := ins.(*ssa.Phi); ok {
			continue
		}
		fr.curIdx = i
		fr.execInstr(ins)
	}
	fr.exit[b] = fr.cur
	// "loop N complete": leaving the loop from inside its body (break, return, panic) must be unreachable
	for _, l2 := range fr.loops {
		if l2.spec == nil || !l2.spec.Complete || !l2.body[b] || b == l2.header {
			continue
		}
		name := fmt.Sprintf("loop-complete:loop%d", l2.ordinal)
		last := b.Instrs[len(b.Instrs)-1]
		if _, isRet := last.(*ssa.Return); isRet {
			vc.oblige(name, reach, tFalse, "no return from inside the loop: every element is processed", last.Pos())
		}
		for k, s2 := range b.Succs {
			if !l2.body[s2] {
				vc.oblige(name, tAnd(reach, fr.edge[b][k]), tFalse, "no break out of the loop: every element is processed", last.Pos())
			}
		}
	}
	// back edges leaving this block
	for k, s := range b.Succs {
		if fr.isBackEdge(b, s) {
			if l2 := fr.loops[s]; l2 != nil {
				fr.loopBackEdge(l2, b, k)
			}
		}
	}
}

// havocVal returns a fresh unconstrained value of Go type t (with integer range assumption).
func (fr *Frame) havocVal(t types.Type, hint string) Term {
	if tup, ok := t.(*types.Tuple); ok {
		_ = tup
		panic("havocVal on tuple")
	}
	s := fr.te().SortOf(t)
	v := fr.vc.fresh(hint, s)
	fr.assumeTyped(t, v)
	// an unknown reference value still denotes something that exists now: it is older than anything allocated later
	if fr.cur != nil {
		switch types.Unalias(t).Underlying().(type) {
		case *types.Pointer, *types.Map:
			fr.vc.assume(Term{fmt.Sprintf("(<= (atime %s) %s)", v.S, fr.cur.Get("clk", SInt).S), SBool})
		case *types.Slice:
			fr.vc.assume(Term{fmt.Sprintf("(<= (atime (sarr %s)) %s)", v.S, fr.cur.Get("clk", SInt).S), SBool})
		}
	}
	return v
}

// assumeTyped adds the type invariants of a value of type t (integer ranges, slice shape).
func (fr *Frame) assumeTyped(t types.Type, v Term) {
	vc := fr.vc
	switch v.Sort {
	case SInt:
		if _, _, ok := intRange(t); ok {
			vc.assume(inRange(t, v))
		}
	case SStr:
		// strings that exist in memory are shorter than the address space
		vc.assume(Term{fmt.Sprintf("(<= (s_len %s) 4611686018427387904)", v.S), SBool})
	case SSlice:
		vc.assume(Term{fmt.Sprintf("(and (<= 0 (slen %s)) (<= (slen %s) (scap %s)) (<= 0 (soff %s)) (<= (scap %s) 4611686018427387904) (=> (= (sarr %s) 0) (= (scap %s) 0)))", v.S, v.S, v.S, v.S, v.S, v.S, v.S), SBool})
	}
	if fr.te().isStructVal(t) {
		si := fr.te().StructInfo(t)
		for i := 0; i < si.st.NumFields(); i++ {
			ft := si.st.Field(i).Type()
			fs := si.fsorts[i]
			if fs == SInt {
				if _, _, ok := intRange(ft); !ok {
					continue
				}
			} else if fs != SSlice && fs != SStr && !fr.te().isStructVal(ft) {
				continue
			}
			fr.assumeTyped(ft, Term{app(si.fields[i], v.S), fs})
		}
	}
}

func (fr *Frame) loopHeader(li *loopInfo) {
	vc := fr.vc
	b := li.header
	spec := li.spec
	name := fmt.Sprintf("loop%d", li.ordinal)
	// 1. invariants on entry (phis currently hold entry values)
	if spec != nil {
		for k, inv := range spec.Invariants {
			env := fr.specEnv(fr.cur, fr.oldState)
			env.atBlock, env.atIdx = b, fr.firstNonPhi(b)
			c, err := env.evalBool(inv.E)
			if err != nil {
				vc.sess.fatalf("%s: %s invariant %d: %v", vc.fn, name, k+1, err)
			}
			vc.oblige(fmt.Sprintf("inv-entry:%s:%s", name, clauseName(inv, k)), fr.curReach, c, inv.Text, b.Instrs[0].Pos())
		}
	}
	// 2. havoc
	fr.cur.Havoc("clk", SInt) // earlier iterations may have allocated; loop-carried references are bounded by this clock
	li.phiFresh = map[*ssa.Phi]Term{}
	for _, ins := range b.Instrs {
		phi, ok := ins.(*ssa.Phi)
		if !ok {
			break
		}
		nv := fr.havocVal(phi.Type(), fr.vname(phi)+"_h")
		li.phiFresh[phi] = nv
		fr.vals[phi] = nv
		delete(fr.locs, phi)
		if phi.Comment == "rangeindex" {
			// built-in invariant of range-over-slice loops as generated by go/ssa: the hidden index starts at -1 and
			// only grows by one while it is below the (once evaluated) length
			vc.assume(tLe(tInt(-1), nv))
			// ... and index+1 never exceeds the length it is compared with
			var next ssa.Value
			for _, hi := range b.Instrs {
				if bo, ok := hi.(*ssa.BinOp); ok {
					if bo.Op == token.ADD && bo.X == ssa.Value(phi) {
						next = bo
					}
					if bo.Op == token.LSS && next != nil && bo.X == next {
						if _, isPhi := bo.Y.(*ssa.Phi); !isPhi {
							if n, ok := fr.vals[bo.Y]; ok {
								vc.assume(tLe(tAdd(nv, tInt(1)), n))
							}
						}
					}
				}
			}
		}
	}
	fr.havocLoopMods(li)
	// map range ghost: seen-set is havocked
	for _, ri := range fr.ranges {
		if ri.isMap && li.body[rangeBlock(ri)] == false {
			// range started before loop; seen-set belongs to this loop if its Next is in header
		}
	}
	// 3. assume invariants
	if spec != nil {
		for k, inv := range spec.Invariants {
			env := fr.specEnv(fr.cur, fr.oldState)
			env.atBlock, env.atIdx = b, fr.firstNonPhi(b)
			c, err := env.evalBool(inv.E)
			if err != nil {
				vc.sess.fatalf("%s: %s invariant %d: %v", vc.fn, name, k+1, err)
			}
			vc.assume(tImp(fr.curReach, c))
		}
		if spec.Decreases != nil {
			env := fr.specEnv(fr.cur, fr.oldState)
			env.atBlock, env.atIdx = b, fr.firstNonPhi(b)
			d, err := env.eval(spec.Decreases.E)
			if err != nil {
				vc.sess.fatalf("%s: %s decreases: %v", vc.fn, name, err)
			}
			li.decrAtHeader = vc.define(fmt.Sprintf("f%d_%s_decr", fr.id, name), d.T)
		}
	}
	li.stHeader = fr.cur.clone()
}

func rangeBlock(ri *rangeInfo) *ssa.BasicBlock {
	if ins, ok := ri.x.(ssa.Instruction); ok {
		return ins.Block()
	}
	return nil
}

func clauseName(c Clause, k int) string {
	if c.Name != "" {
		return c.Name
	}
	return fmt.Sprintf("%d", k+1)
}

func (fr *Frame) firstNonPhi(b *ssa.BasicBlock) int {
	for i, ins := range b.Instrs {
		if _, ok := ins.(*ssa.Phi); !ok {
			return i
		}
	}
	return len(b.Instrs)
}

func (fr *Frame) loopBackEdge(li *loopInfo, from *ssa.BasicBlock, succIdx int) {
	vc := fr.vc
	spec := li.spec
	if spec == nil {
		return
	}
	name := fmt.Sprintf("loop%d", li.ordinal)
	reach := tAnd(fr.reach[from], fr.edge[from][succIdx])
	// substitute phis by their back-edge operands
	sub := map[ssa.Value]Term{}
	predIdx := -1
	for i, p := range li.header.Preds {
		if p == from {
			predIdx = i
		}
	}
	for phi := range li.phiFresh {
		sub[phi] = fr.val(phi.Edges[predIdx])
	}
	saved := fr.subst
	fr.subst = sub
	defer func() { fr.subst = saved }()
	st := fr.exit[from]
	for k, inv := range spec.Invariants {
		env := fr.specEnv(st, fr.oldState)
		env.atBlock, env.atIdx = li.header, fr.firstNonPhi(li.header)
		c, err := env.evalBool(inv.E)
		if err != nil {
			vc.sess.fatalf("%s: %s invariant %d (back edge): %v", vc.fn, name, k+1, err)
		}
		vc.oblige(fmt.Sprintf("inv-preserve:%s:%s", name, clauseName(inv, k)), reach, c, inv.Text, from.Instrs[len(from.Instrs)-1].Pos())
	}
	if spec.Decreases != nil {
		env := fr.specEnv(st, fr.oldState)
		env.atBlock, env.atIdx = li.header, fr.firstNonPhi(li.header)
		d, err := env.eval(spec.Decreases.E)
		if err != nil {
			vc.sess.fatalf("%s: %s decreases: %v", vc.fn, name, err)
		}
		c := Term{fmt.Sprintf("(and (< %s %s) (<= 0 %s))", d.T.S, li.decrAtHeader.S, li.decrAtHeader.S), SBool}
		vc.oblige(fmt.Sprintf("decr:%s", name), reach, c, "decreases "+spec.Decreases.Text, from.Instrs[len(from.Instrs)-1].Pos())
	}
}

// havocLoopMods havocs every heap variable the loop body may modify.
func (fr *Frame) havocLoopMods(li *loopInfo) {
	vc := fr.vc
	te := fr.te()
	heaps := map[string]string{}
	all := false
	var blocks []*ssa.BasicBlock
	for b := range li.body {
		blocks = append(blocks, b)
	}
	sort.Slice(blocks, func(i, j int) bool { return blocks[i].Index < blocks[j].Index })
	for _, b := range blocks {
		for _, ins := range b.Instrs {
			switch ins := ins.(type) {
			case *ssa.Store:
				pt := derefType(ins.Addr.Type())
				fr.staticHeapsOfAddr(ins.Addr, pt, heaps)
			case *ssa.MapUpdate:
				mt := ins.Map.Type().Underlying().(*types.Map)
				h, v := te.mapHeaps(mt)
				heaps[h] = te.mapHasSort(mt)
				heaps[v] = te.mapValSort(mt)
				heaps["MapLen"] = arraySort(SInt, SInt)
			case *ssa.Alloc:
				// zero initialisation writes the heaps of the allocated type
				fr.staticHeapsOfType(derefType(ins.Type()), heaps, true)
			case *ssa.MakeSlice:
				e := ins.Type().Underlying().(*types.Slice).Elem()
				fr.staticHeapsOfElems(e, heaps)
			case *ssa.MakeMap:
				mt := ins.Type().Underlying().(*types.Map)
				h, v := te.mapHeaps(mt)
				heaps[h] = te.mapHasSort(mt)
				heaps[v] = te.mapValSort(mt)
				heaps["MapLen"] = arraySort(SInt, SInt)
			case *ssa.Next:
				if !ins.IsString {
					mt := ins.Iter.(*ssa.Range).X.Type().Underlying().(*types.Map)
					heaps[fr.seenName(ins.Iter)] = arraySort(te.SortOf(mt.Key()), SBool)
				}
			case ssa.CallInstruction:
				if _, isGo := ins.(*ssa.Go); isGo {
					continue
				}
				if fr.callModifies(ins.Common(), heaps) {
					all = true
				}
			}
		}
	}
	if all {
		fr.cur = fr.cur.HavocAll(fr.keepList())
		vc.note(fmt.Sprintf("%s loop %d: body calls a function without frame; all heaps havocked", fr.fn.Name(), li.ordinal))
		return
	}
	fr.cur.Havoc("clk", SInt) // earlier iterations may have allocated
	for _, h := range sortedKeys(heaps) {
		fr.cur.Havoc(h, heaps[h])
	}
}

func (fr *Frame) keepList() []Term {
	var keep []Term
	for _, k := range sortedKeys(fr.unescaped) {
		keep = append(keep, Term{k, SInt})
	}
	return keep
}

// staticHeapsOfAddr lists heaps written by a store through addr (pointee type pt), from types only.
func (fr *Frame) staticHeapsOfAddr(addr ssa.Value, pt types.Type, out map[string]string) {
	te := fr.te()
	switch a := addr.(type) {
	case *ssa.FieldAddr:
		st := derefType(a.X.Type())
		ft := st.Underlying().(*types.Struct).Field(a.Field).Type()
		if te.isAggregate(ft) {
			fr.staticHeapsOfType(ft, out, false)
		} else {
			out[te.fieldHeap(st, a.Field)] = arraySort(SInt, te.SortOf(ft))
		}
		return
	case *ssa.IndexAddr:
		var e types.Type
		switch xt := a.X.Type().Underlying().(type) {
		case *types.Slice:
			e = xt.Elem()
		case *types.Pointer:
			e = xt.Elem().Underlying().(*types.Array).Elem()
		}
		fr.staticHeapsOfElems(e, out)
		return
	case *ssa.Global:
		out["G_"+mangle(a.String())] = te.SortOf(pt)
		return
	}
	fr.staticHeapsOfType(pt, out, true)
}

func (fr *Frame) staticHeapsOfElems(e types.Type, out map[string]string) {
	te := fr.te()
	if te.isAggregate(e) {
		fr.staticHeapsOfType(e, out, false)
	} else {
		out[te.elemHeap(e)] = arraySort(SInt, arraySort(SInt, te.SortOf(e)))
	}
}

// staticHeapsOfType lists the heaps holding the contents of an object of type t (cell heap if scalar and cell is true).
func (fr *Frame) staticHeapsOfType(t types.Type, out map[string]string, cell bool) {
	te := fr.te()
	if te.isStructVal(t) {
		st := t.Underlying().(*types.Struct)
		for i := 0; i < st.NumFields(); i++ {
			ft := st.Field(i).Type()
			if te.isAggregate(ft) {
				fr.staticHeapsOfType(ft, out, false)
			} else {
				out[te.fieldHeap(t, i)] = arraySort(SInt, te.SortOf(ft))
			}
		}
		return
	}
	if a, ok := isArray(t); ok {
		fr.staticHeapsOfElems(a.Elem(), out)
		return
	}
	if cell {
		out[te.cellHeap(t)] = arraySort(SInt, te.SortOf(t))
	}
}

// val returns the SMT term of an SSA value.
func (fr *Frame) val(v ssa.Value) Term {
	if fr.subst != nil {
		if t, ok := fr.subst[v]; ok {
			return t
		}
	}
	if t, ok := fr.vals[v]; ok {
		return t
	}
	te := fr.te()
	switch v := v.(type) {
	case *ssa.Const:
		return fr.constTerm(v)
	case *ssa.Global:
		// address of a global: opaque pointer constant
		n := "gaddr_" + mangle(v.String())
		te.pre.Add("const:"+n, fmt.Sprintf("(declare-const %s Int)", n))
		te.pre.Add("ax:"+n, fmt.Sprintf("(assert (and (> %s 0) (old_alloc %s)))", n, n))
		return Term{n, SInt}
	case *ssa.Function:
		return fr.funcID(v)
	case *ssa.FreeVar:
		if fr.parent != nil {
			// bound at MakeClosure; resolved by caller when inlining
		}
		panic("unbound free variable " + v.Name() + " in " + fr.fn.String())
	case *ssa.Builtin:
		return tInt(0)
	}
	if l, ok := fr.locs[v]; ok {
		// pointer to a scalar location used as a value: opaque encoding
		t := fr.opaquePtr(l)
		fr.vals[v] = t
		return t
	}
	if fr.parent != nil {
		if t, ok := fr.parent.vals[v]; ok {
			return t
		}
	}
	panic(fmt.Sprintf("val: no term for %s (%T) in %s", v.Name(), v, fr.fn))
}

func (fr *Frame) opaquePtr(l *Loc) Term {
	te := fr.te()
	switch l.Kind {
	case "obj", "cell":
		return l.Base
	case "field":
		fn := smtName("ptrf_" + l.Heap)
		if !te.pre.Has("fn:" + fn) {
			te.pre.Add("fn:"+fn, fmt.Sprintf("(declare-fun %s (Int) Int)", fn))
			// addresses of different fields are different; the address determines the object
			k := te.subTag()
			inv := smtName("invptr_" + fn)
			te.pre.Add("fn:"+inv, fmt.Sprintf("(declare-fun %s (Int) Int)", inv))
			te.pre.Add("ax:"+fn, fmt.Sprintf("(assert (forall ((p Int)) (! (and (= (%s (%s p)) p) (= (subtag (%s p)) %d) (not (= (%s p) 0)) (= (atime (%s p)) (atime p))) :pattern ((%s p)))))", inv, fn, fn, k, fn, fn, fn))
		}
		return Term{app(fn, l.Base.S), SInt}
	case "elem":
		fn := smtName("ptre_" + l.Heap)
		te.pre.Add("fn:"+fn, fmt.Sprintf("(declare-fun %s (Int Int) Int)", fn))
		return Term{app(fn, l.Base.S, l.Idx.S), SInt}
	case "global":
		fn := smtName("ptrg_" + l.Heap)
		te.pre.Add("const:"+fn, fmt.Sprintf("(declare-const %s Int)", fn))
		return Term{fn, SInt}
	}
	panic("opaquePtr")
}

func (fr *Frame) funcID(f *ssa.Function) Term {
	// a method expression (T.M used as a value) is compiled to a thunk that only forwards to M: same function value
	n := smtName("fn_" + mangle(strings.TrimSuffix(f.String(), "$thunk")))
	te := fr.te()
	te.pre.Add("const:"+n, fmt.Sprintf("(declare-const %s Int)", n))
	te.pre.Add("ax:"+n, fmt.Sprintf("(assert (> %s 0))", n))
	return Term{n, SInt}
}

// addr returns the location denoted by pointer value p.
func (fr *Frame) addr(p ssa.Value) *Loc {
	if l, ok := fr.locs[p]; ok {
		return l
	}
	if g, ok := p.(*ssa.Global); ok {
		pt := derefType(g.Type())
		if fr.te().isAggregate(pt) {
			return &Loc{Kind: "obj", Base: fr.val(g), Typ: pt}
		}
		return &Loc{Kind: "global", Heap: "G_" + mangle(g.String()), Typ: pt}
	}
	if fv, ok := p.(*ssa.FreeVar); ok {
		_ = fv
	}
	pt := derefType(p.Type())
	if pt == nil {
		panic("addr: not a pointer: " + p.String())
	}
	return fr.te().PtrLoc(pt, fr.val(p))
}
