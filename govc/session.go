package main

import (
	"fmt"
	"go/token"
	"go/types"
	"os"
	"path/filepath"
	"sort"
	"strings"

	"golang.org/x/tools/go/packages"
	"golang.org/x/tools/go/ssa"
	"golang.org/x/tools/go/ssa/ssautil"
)

type Session struct {
	pre           *Prelude
	te            *TypeEnv
	specs         *SpecSet
	prog          *ssa.Program
	fset          *token.FileSet
	pkgs          []*packages.Package
	spkgs         []*ssa.Package
	allTypes      map[string]*types.Package // by path
	strLits       map[string]string
	closureByID   map[string]*closureInfo
	autoInline    map[string]bool
	usedContracts map[string]bool
	noSafe        bool
	noFrame       bool
	probeFalse    bool
	yamlTree      bool
	lockSweep     bool
	immutableHeaps map[string]bool
	repo          string
	verifDir      string
	stale         []string
}

type fatalErr struct{ msg string }

func (s *Session) fatalf(f string, a ...any) {
	panic(fatalErr{fmt.Sprintf(f, a...)})
}

func (s *Session) pos(p token.Pos) token.Position {
	if !p.IsValid() {
		return token.Position{}
	}
	return s.fset.Position(p)
}

func NewSession(repo, verifDir string, patterns []string, overlay map[string][]byte) (*Session, error) {
	s := &Session{repo: repo, verifDir: verifDir, strLits: map[string]string{}, closureByID: map[string]*closureInfo{},
		autoInline: map[string]bool{}, usedContracts: map[string]bool{}, allTypes: map[string]*types.Package{}, immutableHeaps: map[string]bool{}}
	s.pre = NewPrelude()
	s.te = NewTypeEnv(s.pre)
	s.te.immutable = s.immutableHeaps
	s.specs = NewSpecSet()
	s.fset = token.NewFileSet()
	cfg := &packages.Config{Mode: packages.LoadSyntax, Dir: repo, BuildFlags: []string{"-tags=verif"}, Fset: s.fset, Overlay: overlay,
		Env: append(os.Environ(), "GOFLAGS=-mod=mod", "GOPROXY=off")}
	pkgs, err := packages.Load(cfg, patterns...)
	if err != nil {
		return nil, err
	}
	nerr := 0
	for _, p := range pkgs {
		for _, e := range p.Errors {
			fmt.Fprintf(os.Stderr, "load error: %s: %v\n", p.PkgPath, e)
			nerr++
		}
	}
	if nerr > 0 {
		return nil, fmt.Errorf("%d package load errors", nerr)
	}
	s.pkgs = pkgs
	prog, spkgs := ssautil.Packages(pkgs, ssa.InstantiateGenerics|ssa.GlobalDebug)
	s.prog = prog
	for _, p := range spkgs {
		if p != nil {
			p.Build()
			s.spkgs = append(s.spkgs, p)
		}
	}
	packages.Visit(pkgs, nil, func(p *packages.Package) {
		if p.Types != nil {
			s.allTypes[p.PkgPath] = p.Types
		}
	})
	// contract files of the loaded packages
	for _, p := range pkgs {
		dir := ""
		if len(p.GoFiles) > 0 {
			dir = filepath.Dir(p.GoFiles[0])
		}
		if dir == "" {
			continue
		}
		cf := filepath.Join(dir, "zz_contracts_verif.go")
		if data, ok := overlay[cf]; ok {
			tmp := filepath.Join(verifDir, "out", "overlay_contract_"+os.Getenv("GOVC_RUN")+mangle(p.PkgPath)+".go")
			os.MkdirAll(filepath.Dir(tmp), 0o755)
			os.WriteFile(tmp, data, 0o644)
			if err := s.specs.LoadContractFile(tmp, p.PkgPath); err != nil {
				return nil, err
			}
			continue
		}
		if _, err := os.Stat(cf); err == nil {
			if err := s.specs.LoadContractFile(cf, p.PkgPath); err != nil {
				return nil, err
			}
		}
	}
	ext, _ := filepath.Glob(filepath.Join(verifDir, "specs", "extern", "*.spec"))
	sort.Strings(ext)
	for _, f := range ext {
		if err := s.specs.LoadContractFile(f, ""); err != nil {
			return nil, err
		}
	}
	if err := s.emitAxioms(); err != nil {
		return nil, err
	}
	return s, nil
}

func (s *Session) typesPkg(path string) *types.Package { return s.allTypes[path] }

// findPackageByName resolves a package identifier as used in a spec, preferring imports of from.
func (s *Session) findPackageByName(from *types.Package, name string) *types.Package {
	if from != nil {
		if from.Name() == name {
			return from
		}
		for _, imp := range from.Imports() {
			if imp.Name() == name {
				return imp
			}
		}
	}
	var found *types.Package
	for _, k := range sortedKeys(s.allTypes) {
		p := s.allTypes[k]
		if p.Name() == name {
			if found == nil || len(p.Path()) < len(found.Path()) {
				found = p
			}
		}
	}
	return found
}

func (s *Session) findTypeByName(name string) types.Type {
	for _, p := range s.pkgs {
		if o := p.Types.Scope().Lookup(name); o != nil {
			if tn, ok := o.(*types.TypeName); ok {
				return tn.Type()
			}
		}
	}
	return nil
}

func (s *Session) findObjectByName(name string) types.Object {
	for _, p := range s.pkgs {
		if o := p.Types.Scope().Lookup(name); o != nil {
			switch o.(type) {
			case *types.Const, *types.Var, *types.Func:
				return o
			}
		}
	}
	return nil
}

// findFunction locates the SSA function for a contract.
func (s *Session) findFunction(c *Contract) *ssa.Function {
	tp := s.allTypes[c.Pkg]
	if tp == nil {
		return nil
	}
	sp := s.prog.Package(tp)
	if sp == nil {
		return nil
	}
	key := c.Key
	if d := strings.Index(key, "$"); d >= 0 {
		// anonymous function: <outer key>$<n>[$<m>...]
		outer := *c
		outer.Key = key[:d]
		of := s.findFunction(&outer)
		if of == nil {
			return nil
		}
		cur := of
		for _, part := range strings.Split(key[d+1:], "$") {
			n := 0
			fmt.Sscanf(part, "%d", &n)
			if n < 1 || n > len(cur.AnonFuncs) {
				return nil
			}
			cur = cur.AnonFuncs[n-1]
		}
		return cur
	}
	if i := strings.LastIndex(key, "."); i >= 0 && (strings.HasPrefix(key, "(") || !strings.Contains(key[:i], "/")) && i > 0 {
		recv := key[:i]
		name := key[i+1:]
		ptr := false
		if strings.HasPrefix(recv, "(*") {
			ptr = true
			recv = recv[2 : len(recv)-1]
		}
		o := tp.Scope().Lookup(recv)
		tn, ok := o.(*types.TypeName)
		if !ok {
			return nil
		}
		var t types.Type = tn.Type()
		if ptr {
			t = types.NewPointer(t)
		}
		ms := s.prog.MethodSets.MethodSet(t)
		for i := 0; i < ms.Len(); i++ {
			sel := ms.At(i)
			if sel.Obj().Name() == name {
				f := s.prog.MethodValue(sel)
				if f != nil && f.Synthetic != "" && !ptr {
					continue
				}
				return f
			}
		}
		// value-receiver method found through the pointer method set is a wrapper; look at the declared function
		if fn, ok := sp.Members[name].(*ssa.Function); ok && false {
			return fn
		}
		for _, m := range sp.Members {
			_ = m
		}
		if named, ok := tn.Type().(*types.Named); ok {
			for i := 0; i < named.NumMethods(); i++ {
				if named.Method(i).Name() == name {
					return s.prog.FuncValue(named.Method(i))
				}
			}
		}
		return nil
	}
	if fn, ok := sp.Members[key].(*ssa.Function); ok {
		return fn
	}
	return nil
}

// checkContractHeader verifies that the contract header matches the function's signature.
func (s *Session) checkContractHeader(c *Contract, fn *ssa.Function) error {
	sig := fn.Signature
	if sig.Params().Len() != len(c.Params) {
		return fmt.Errorf("contract %s: %d parameters in header, function has %d", c.Key, len(c.Params), sig.Params().Len())
	}
	for i := 0; i < sig.Params().Len(); i++ {
		n := sig.Params().At(i).Name()
		if n != "" && n != "_" && !strings.HasPrefix(c.Params[i], "_p") && n != c.Params[i] {
			// bound by position: a renamed parameter is not a stale contract
			fmt.Printf("PARAM-RENAMED %s: parameter %d is %q in the contract header, %q in the function (bound by position)\n", c.Key, i+1, c.Params[i], n)
		}
	}
	if sig.Results().Len() != len(c.Results) {
		return fmt.Errorf("contract %s: %d results in header, function has %d", c.Key, len(c.Results), sig.Results().Len())
	}
	return nil
}

// emitAxioms evaluates the axioms of the spec files and adds them to the prelude (triggered by the spec functions they mention).
func (s *Session) emitAxioms() error {
	vc := newFnVC(s, nil, nil)
	fr := &Frame{vc: vc, vals: map[ssa.Value]Term{}, locs: map[ssa.Value]*Loc{}, paramVals: map[string]Term{}, unescaped: map[string]bool{}}
	for _, a := range s.specs.Axioms {
		if a.NoAssume {
			continue
		}
		env := &Env{fr: fr, st: vc.entry, old: vc.entry, vars: map[string]Val{}, noLookup: true}
		env.pkg = s.allTypes[a.Pkg]
		var t Term
		var err error
		func() {
			defer func() {
				if r := recover(); r != nil {
					if fe, ok := r.(fatalErr); ok {
						err = fmt.Errorf("%s", fe.msg)
						return
					}
					panic(r)
				}
			}()
			t, err = env.evalBool(a.E)
		}()
		if err != nil {
			return fmt.Errorf("axiom %s (%s): %v", a.Name, a.Src, err)
		}
		if len(vc.items) > 0 {
			return fmt.Errorf("axiom %s (%s) depends on program state", a.Name, a.Src)
		}
		trig := ""
		for _, tok := range smtTokens(t.S) {
			if strings.HasPrefix(tok, "sf_") || strings.HasPrefix(tok, "pf_") || strings.HasPrefix(tok, "|sf_") || strings.HasPrefix(tok, "|pf_") {
				trig = tok
				break
			}
		}
		if trig == "" {
			trig = "true"
		}
		s.pre.Add("ax:"+strings.Trim(trig, "|")+"#"+a.Name, "(assert "+t.S+") ; axiom "+a.Name)
	}
	return nil
}

// lemmaVCs builds, for every induction lemma in the loaded spec set, a proof obligation pair (base, step).  The lemma
// itself and every lemma declared after it are excluded from the prelude of its own proof.
func (s *Session) lemmaVCs() ([]*FnVC, error) {
	var out []*FnVC
	for li, a := range s.specs.Axioms {
		if !a.Lemma {
			continue
		}
		q, ok := a.E.(*SQuant)
		if !ok || !q.Forall {
			return nil, fmt.Errorf("lemma %s (%s) must be a universally quantified formula", a.Name, a.Src)
		}
		vc := newFnVC(s, nil, &Contract{Key: "lemma:" + a.Name, Pkg: a.Pkg})
		vc.exclAx = map[string]bool{}
		for _, b := range s.specs.Axioms[li:] {
			if b.Lemma && !b.NoAssume {
				vc.exclAx[b.Name] = true
			}
		}
		fr := &Frame{vc: vc, vals: map[ssa.Value]Term{}, locs: map[ssa.Value]*Loc{}, paramVals: map[string]Term{}, unescaped: map[string]bool{}}
		mk := func() *Env {
			env := &Env{fr: fr, st: vc.entry, old: vc.entry, vars: map[string]Val{}, noLookup: true}
			env.pkg = s.allTypes[a.Pkg]
			return env
		}
		env := mk()
		var ind Term
		found := false
		var ihBinders []string
		ihEnv := mk()
		for _, v := range q.Vars {
			t, err := env.resolveType(v.Type)
			if err != nil {
				return nil, fmt.Errorf("lemma %s: %v", a.Name, err)
			}
			srt := env.sortOfSpecType(v.Type, t)
			c := vc.declOnce("lm_"+v.Name, srt)
			val := Val{T: c, Typ: t}
			if v.Type.Kind == "map" {
				val.Typ = nil
			}
			if t != nil && !(v.Type.Kind == "name" && v.Type.Pkg == "" && v.Type.Name == "int") {
				if _, _, ok := intRange(t); ok {
					return nil, fmt.Errorf("lemma %s: sized integer variables are not supported, use int", a.Name)
				}
			}
			env.vars[v.Name] = val
			if v.Name == a.IndVar {
				if srt != SInt {
					return nil, fmt.Errorf("lemma %s: induction variable must be int", a.Name)
				}
				ind = c
				found = true
				ihEnv.vars[v.Name] = Val{T: tSub(c, tInt(1)), Typ: t}
			} else {
				qv := Term{"q_" + v.Name, srt}
				ihBinders = append(ihBinders, fmt.Sprintf("(%s %s)", qv.S, srt))
				iv := val
				iv.T = qv
				ihEnv.vars[v.Name] = iv
			}
		}
		if !found {
			return nil, fmt.Errorf("lemma %s: induction variable %s is not bound by the outer forall", a.Name, a.IndVar)
		}
		var goal, ih Term
		var err error
		func() {
			defer func() {
				if r := recover(); r != nil {
					if fe, ok := r.(fatalErr); ok {
						err = fmt.Errorf("%s", fe.msg)
						return
					}
					panic(r)
				}
			}()
			goal, err = env.evalBool(q.Body)
			if err == nil {
				ihEnv.quantDepth = 1
				ih, err = ihEnv.evalBool(q.Body)
			}
		}()
		if err != nil {
			return nil, fmt.Errorf("lemma %s (%s): %v", a.Name, a.Src, err)
		}
		if len(ihBinders) > 0 {
			ih = Term{fmt.Sprintf("(forall (%s) %s)", strings.Join(ihBinders, " "), ih.S), SBool}
		}
		vc.oblige("lemma-base:"+a.Name, tLe(ind, tInt(0)), goal, "base case ("+a.IndVar+" <= 0) of lemma "+a.Name+": "+a.Text, 0)
		vc.oblige("lemma-step:"+a.Name, tAnd(tLt(tInt(0), ind), ih), goal, "induction step ("+a.IndVar+"-1 -> "+a.IndVar+") of lemma "+a.Name+": "+a.Text, 0)
		// the base obligation must not be assumed for the step in a way that hides a wrong step: it only speaks about n <= 0
		out = append(out, vc)
	}
	return out, nil
}

func instSuffix(tf, fn *ssa.Function) string {
	if tf == fn {
		return ""
	}
	if i := strings.Index(tf.Name(), "["); i >= 0 {
		return strings.ReplaceAll(tf.Name()[i:], modPrefix, "")
	}
	return ""
}

// instantiationsOf returns the instantiations of generic function g that are called from the loaded packages.
func (s *Session) instantiationsOf(g *ssa.Function) []*ssa.Function {
	seen := map[*ssa.Function]bool{}
	var out []*ssa.Function
	var visit func(f *ssa.Function)
	visited := map[*ssa.Function]bool{}
	visit = func(f *ssa.Function) {
		if f == nil || visited[f] {
			return
		}
		visited[f] = true
		for _, b := range f.Blocks {
			for _, ins := range b.Instrs {
				if ci, ok := ins.(ssa.CallInstruction); ok {
					if callee := ci.Common().StaticCallee(); callee != nil {
						if callee.Origin() == g && !seen[callee] {
							seen[callee] = true
							out = append(out, callee)
						}
						if callee.Origin() != nil {
							visit(callee) // instantiated generics may call further instantiations
						}
					}
				}
			}
		}
		for _, af := range f.AnonFuncs {
			visit(af)
		}
	}
	for _, sp := range s.spkgs {
		for _, m := range sp.Members {
			switch m := m.(type) {
			case *ssa.Function:
				visit(m)
			case *ssa.Type:
				for _, t := range []types.Type{m.Type(), types.NewPointer(m.Type())} {
					ms := s.prog.MethodSets.MethodSet(t)
					for i := 0; i < ms.Len(); i++ {
						visit(s.prog.MethodValue(ms.At(i)))
					}
				}
			}
		}
	}
	sort.Slice(out, func(i, j int) bool { return out[i].Name() < out[j].Name() })
	return out
}

type sweepSite struct {
	key    string
	callee string
	pos    string
}

// sweepSites lists every call of the swept callees made in the package (functions, methods, closures).
func (s *Session) sweepSites(sd *SweepDecl) []sweepSite {
	want := map[string]bool{}
	for _, c := range sd.Callees {
		want[c] = true
	}
	tp := s.allTypes[sd.Pkg]
	if tp == nil {
		return nil
	}
	sp := s.prog.Package(tp)
	if sp == nil {
		return nil
	}
	var out []sweepSite
	seen := map[*ssa.Function]bool{}
	var visit func(f *ssa.Function)
	visit = func(f *ssa.Function) {
		if f == nil || seen[f] || f.Blocks == nil {
			return
		}
		seen[f] = true
		if f.Synthetic != "" && f.Parent() == nil {
			return
		}
		for _, b := range f.Blocks {
			for _, ins := range b.Instrs {
				ci, ok := ins.(ssa.CallInstruction)
				if !ok {
					continue
				}
				cc := ci.Common()
				full := ""
				if callee := cc.StaticCallee(); callee != nil {
					full = fullName(callee)
				} else if cc.IsInvoke() {
					full = "(" + types.TypeString(cc.Value.Type(), nil) + ")." + cc.Method.Name()
				} else if k := fieldCallKey(cc.Value); k != "" && want[k] {
					full = k
				} else if n, ok := types.Unalias(cc.Value.Type()).(*types.Named); ok && n.Obj().Pkg() != nil {
					full = "functype:" + n.Obj().Pkg().Path() + "." + n.Obj().Name()
				}
				if full != "" && want[full] {
					p := s.pos(ins.Pos())
					if !p.IsValid() {
						p = s.pos(f.Pos())
					}
					out = append(out, sweepSite{key: fmt.Sprintf("%s@%s:%d", full, f.Name(), p.Line), callee: full, pos: fmt.Sprintf("%s:%d", strings.TrimPrefix(p.Filename, s.repo+"/"), p.Line)})
				}
			}
		}
		for _, af := range f.AnonFuncs {
			visit(af)
		}
	}
	for _, m := range sp.Members {
		switch m := m.(type) {
		case *ssa.Function:
			visit(m)
		case *ssa.Type:
			for _, t := range []types.Type{m.Type(), types.NewPointer(m.Type())} {
				ms := s.prog.MethodSets.MethodSet(t)
				for i := 0; i < ms.Len(); i++ {
					visit(s.prog.MethodValue(ms.At(i)))
				}
			}
		}
	}
	sort.Slice(out, func(i, j int) bool { return out[i].key < out[j].key })
	return out
}

// lockSweepTargets lists the functions of the given packages that access a guarded field or call a function whose
// contract requires a lock to be held, and that have no explicit contract for the property: they are verified against
// the implicit contract "entered with no lock held".
func (s *Session) lockSweepTargets(pkgs []string, prop string) []*ssa.Function {
	guard := map[string]bool{}
	for _, g := range s.specs.Guards {
		guard[g.Pkg+"."+g.Type+"."+g.Field] = true
	}
	var out []*ssa.Function
	seen := map[*ssa.Function]bool{}
	var visit func(f *ssa.Function)
	visit = func(f *ssa.Function) {
		if f == nil || seen[f] || f.Blocks == nil {
			return
		}
		seen[f] = true
		if f.Synthetic != "" {
			return
		}
		hit := false
		for _, b := range f.Blocks {
			for _, ins := range b.Instrs {
				switch ins := ins.(type) {
				case *ssa.FieldAddr:
					if n, ok := types.Unalias(derefType(ins.X.Type())).(*types.Named); ok && n.Obj().Pkg() != nil {
						stt := n.Underlying().(*types.Struct)
						if guard[n.Obj().Pkg().Path()+"."+n.Obj().Name()+"."+stt.Field(ins.Field).Name()] {
							hit = true
						}
					}
				case ssa.CallInstruction:
					if k := fieldCallKey(ins.Common().Value); k != "" && f.Pkg != nil {
						for _, cr := range s.specs.Callsites {
							if cr.Callee == k && cr.Pkg == f.Pkg.Pkg.Path() {
								hit = true
							}
						}
					}
					if callee := ins.Common().StaticCallee(); callee != nil {
						if c := s.contractFor(callee); c != nil {
							for _, r := range c.Requires {
								if strings.Contains(r.Text, "held(") {
									hit = true
								}
							}
						}
					}
				}
			}
		}
		if hit {
			out = append(out, f)
		}
		for _, af := range f.AnonFuncs {
			visit(af)
		}
	}
	for _, sp := range s.spkgs {
		for _, m := range sp.Members {
			switch m := m.(type) {
			case *ssa.Function:
				visit(m)
			case *ssa.Type:
				for _, t := range []types.Type{m.Type(), types.NewPointer(m.Type())} {
					ms := s.prog.MethodSets.MethodSet(t)
					for i := 0; i < ms.Len(); i++ {
						visit(s.prog.MethodValue(ms.At(i)))
					}
				}
			}
		}
	}
	sort.Slice(out, func(i, j int) bool { return out[i].String() < out[j].String() })
	return out
}
