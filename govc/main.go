package main

import (
	"encoding/json"
	"flag"
	"fmt"
	"os"
	"path/filepath"
	"sort"
	"strconv"
	"strings"
	"sync"
	"time"

	"golang.org/x/tools/go/ssa"
)

type PropConfig struct {
	ID        string   `json:"id"`
	Packages  []string `json:"packages"`
	MinObl    int      `json:"min_obligations"`
	Trusted   []string `json:"trusted_base"`
	Bounded   []any    `json:"bounded"`
	Note      string   `json:"note"`
	NoFrame   bool     `json:"no_frame"`
	YAMLTree  bool     `json:"yaml_tree_values"`
	LockSweep bool     `json:"lock_sweep"`
	Functions []string `json:"functions"` // optional explicit list "pkg::Key"
}

type OblResult struct {
	Func    string  `json:"function"`
	Name    string  `json:"obligation"`
	Info    string  `json:"info"`
	Pos     string  `json:"pos"`
	Verdict string  `json:"verdict"`
	Solver  string  `json:"solver"`
	Time    float64 `json:"time_s"`
	File    string  `json:"smt_file,omitempty"`
	Trivial bool    `json:"trivial,omitempty"`
	Cover   bool    `json:"cover,omitempty"`
	Info2   bool    `json:"-"`
	Output  string  `json:"-"`
	Ground  bool    `json:"-"`
	Query   string  `json:"-"` // the full query file (File points to the ground query when Ground is set)
	Values  map[string]string `json:"-"`
	vc      *FnVC
	idx     int
}

func main() {
	if len(os.Args) < 2 {
		fmt.Fprintln(os.Stderr, "usage: govc check|dump ...")
		os.Exit(2)
	}
	switch os.Args[1] {
	case "check":
		os.Exit(cmdCheck(os.Args[2:]))
	case "dump":
		os.Exit(cmdDump(os.Args[2:]))
	default:
		fmt.Fprintln(os.Stderr, "unknown command", os.Args[1])
		os.Exit(2)
	}
}

func cmdDump(args []string) int {
	fs := flag.NewFlagSet("dump", flag.ExitOnError)
	repo := fs.String("repo", "/repo", "")
	verif := fs.String("verif", "/verif", "")
	pkgs := fs.String("pkgs", "", "")
	fnName := fs.String("func", "", "")
	fs.Parse(args)
	s, err := NewSession(*repo, *verif, strings.Split(*pkgs, ","), nil)
	if err != nil {
		fmt.Fprintln(os.Stderr, err)
		return 2
	}
	for _, sp := range s.spkgs {
		for _, m := range sp.Members {
			if f, ok := m.(*ssa.Function); ok && strings.Contains(f.String(), *fnName) {
				f.WriteTo(os.Stdout)
				for _, af := range f.AnonFuncs {
					af.WriteTo(os.Stdout)
				}
			}
		}
	}
	for _, c := range s.specs.Contracts {
		if c.Extern || !strings.Contains(c.Key, *fnName) {
			continue
		}
		if f := s.findFunction(c); f != nil {
			f.WriteTo(os.Stdout)
			for _, af := range f.AnonFuncs {
				af.WriteTo(os.Stdout)
			}
		}
	}
	return 0
}

var axiomsVerdict string

func cmdCheck(args []string) int {
	fs := flag.NewFlagSet("check", flag.ExitOnError)
	repo := fs.String("repo", "/repo", "repository root")
	verif := fs.String("verif", "/verif", "verification directory")
	prop := fs.String("prop", "", "property id")
	tier := fs.String("tier", "quick", "quick|thorough")
	only := fs.String("func", "", "only verify functions whose key contains this")
	verbose := fs.Bool("v", false, "verbose")
	seedF := fs.Int("seed", -1, "seed")
	overlayF := fs.String("overlay", "", "JSON file mapping file paths to replacement file paths (mutants)")
	noEvidence := fs.Bool("no-evidence", false, "do not write evidence file")
	probeFalse := fs.Bool("probe-false", false, "add an unprovable obligation to every function (vacuity debugging)")
	fs.Parse(args)
	t0 := time.Now()
	seed := 0
	if v := os.Getenv("VERIF_SEED"); v != "" {
		seed, _ = strconv.Atoi(v)
	}
	if *seedF >= 0 {
		seed = *seedF
	}
	if v := os.Getenv("VERIF_TIER"); v != "" && *tier == "" {
		*tier = v
	}
	var cfg PropConfig
	data, err := os.ReadFile(filepath.Join(*verif, "specs", "props", *prop+".json"))
	if err != nil {
		fmt.Fprintln(os.Stderr, "cannot read property config:", err)
		return 2
	}
	if err := json.Unmarshal(data, &cfg); err != nil {
		fmt.Fprintln(os.Stderr, "bad property config:", err)
		return 2
	}
	var overlay map[string][]byte
	if *overlayF != "" {
		overlay = map[string][]byte{}
		od, err := os.ReadFile(*overlayF)
		if err != nil {
			fmt.Fprintln(os.Stderr, err)
			return 2
		}
		var m map[string]string
		if err := json.Unmarshal(od, &m); err != nil {
			fmt.Fprintln(os.Stderr, err)
			return 2
		}
		mutantOverlay = m
		for k, v := range m {
			b, err := os.ReadFile(v)
			if err != nil {
				fmt.Fprintln(os.Stderr, err)
				return 2
			}
			overlay[k] = b
		}
	}
	s, err := NewSession(*repo, *verif, cfg.Packages, overlay)
	if err != nil {
		fmt.Fprintln(os.Stderr, "load failed:", err)
		fmt.Printf("TOOL-ERROR property=%s cannot load packages (build broken?)\n", *prop)
		return 2
	}
	s.noFrame = cfg.NoFrame
	s.probeFalse = *probeFalse
	s.yamlTree = cfg.YAMLTree
	s.lockSweep = cfg.LockSweep
	tLoad := time.Since(t0).Seconds()

	// select contracts
	var keys []string
	for k, c := range s.specs.Contracts {
		if c.Extern {
			continue
		}
		for _, p := range c.Props {
			if p == *prop {
				keys = append(keys, k)
			}
		}
	}
	sort.Strings(keys)
	var vcs []*FnVC
	var funcsUnder []string
	var trustedBodies []string
	stale := []string{}
	for _, k := range keys {
		c := s.specs.Contracts[k]
		if *only != "" && !strings.Contains(c.Key, *only) {
			continue
		}
		fn := s.findFunction(c)
		if fn == nil {
			stale = append(stale, fmt.Sprintf("%s: function not found", k))
			continue
		}
		if err := s.checkContractHeader(c, fn); err != nil {
			stale = append(stale, err.Error())
			continue
		}
		if c.Trusted {
			trustedBodies = append(trustedBodies, k)
			continue
		}
		targets := []*ssa.Function{fn}
		if fn.TypeParams().Len() > 0 && len(fn.TypeArgs()) == 0 {
			// contract on a generic function: every instantiation used in the loaded packages is verified against it
			targets = s.instantiationsOf(fn)
			if len(targets) == 0 {
				stale = append(stale, fmt.Sprintf("%s: generic function has no instantiation", k))
				continue
			}
		}
		for _, tf := range targets {
			vc, err := s.verifyFunc(tf, c)
			if err != nil {
				stale = append(stale, fmt.Sprintf("%s: %v", k, err))
				continue
			}
			if tf != fn {
				vc.instName = tf.Name()
			}
			vcs = append(vcs, vc)
			label := k + instSuffix(tf, fn)
			if c.CallsitesOnly {
				label += " (call-site clauses and must- postconditions only; the rest of its contract is assumed)"
			}
			funcsUnder = append(funcsUnder, label)
		}
	}
	if cfg.LockSweep && *only == "" || cfg.LockSweep && *only != "" {
		have := map[*ssa.Function]bool{}
		for _, vc := range vcs {
			have[vc.fn] = true
		}
		for _, f := range s.lockSweepTargets(cfg.Packages, *prop) {
			if have[f] {
				continue
			}
			if c := s.contractFor(f); c != nil {
				// has an explicit contract for another property: verify it under that contract for the lock obligations
				if c.Trusted {
					continue
				}
				if *only != "" && !strings.Contains(c.Key, *only) {
					continue
				}
				vc, err := s.verifyFunc(f, c)
				if err != nil {
					stale = append(stale, fmt.Sprintf("%s: %v", c.Key, err))
					continue
				}
				vc.lockOnly = true
				vcs = append(vcs, vc)
				funcsUnder = append(funcsUnder, c.Pkg+"::"+c.Key+" (lock obligations)")
				continue
			}
			pk, key := funcKey(f)
			if *only != "" && !strings.Contains(key, *only) {
				continue
			}
			ic := &Contract{Key: key, Pkg: pk, ModAll: true, HasMod: true, Loops: map[int]*LoopSpec{}, Nullable: map[string]bool{}, Unroll: map[int]int{}, Implicit: true}
			for _, p := range f.Params {
				if f.Signature.Recv() != nil && p == f.Params[0] {
					ic.RecvName = p.Name()
					continue
				}
				ic.Params = append(ic.Params, p.Name())
			}
			for i := 0; i < f.Signature.Results().Len(); i++ {
				ic.Results = append(ic.Results, fmt.Sprintf("r%d", i))
			}
			vc, err := s.verifyFunc(f, ic)
			if err != nil {
				stale = append(stale, fmt.Sprintf("%s: %v", key, err))
				continue
			}
			vc.lockOnly = true
			vcs = append(vcs, vc)
			funcsUnder = append(funcsUnder, pk+"::"+key+" (implicit: entered with no lock held)")
		}
	}
	if lvcs, err := s.lemmaVCs(); err != nil {
		stale = append(stale, err.Error())
	} else {
		for _, lvc := range lvcs {
			if *only != "" && !strings.Contains(lvc.contract.Key, *only) {
				continue
			}
			if !lemmaUsed(lvc, vcs) {
				continue
			}
			vcs = append(vcs, lvc)
			funcsUnder = append(funcsUnder, lvc.contract.Pkg+"::"+lvc.contract.Key+" (proved by induction, then used as an axiom)")
		}
	}
	if os.Getenv("GOVC_NOTES") != "" {
		for _, vc := range vcs {
			for _, n := range vc.imprecise {
				fmt.Printf("NOTE %s: %s\n", vc.contract.Key, n)
			}
		}
	}
	if len(stale) > 0 {
		for _, m := range stale {
			fmt.Printf("STALE-CONTRACT property=%s %s\n", *prop, m)
		}
		return 3
	}
	tGen := time.Since(t0).Seconds()

	timeout := 10
	if v, err := strconv.Atoi(os.Getenv("GOVC_T1")); err == nil && v > 0 {
		timeout = v // testing aid: a short first-pass time-out exercises the second attempt
	}
	all := false
	if *tier == "thorough" {
		timeout = 60
		all = true
	}
	prelude := s.pre
	// GOVC_RUN: a suffix that keeps the scratch files of concurrent runs of the same property apart
	outDir := filepath.Join(*verif, "out", "smt"+os.Getenv("GOVC_RUN"), *prop)
	os.RemoveAll(outDir)
	// axioms-consistent: the quantified prelude used by this property must not be refutable on its own
	{
		var all strings.Builder
		for _, vc := range vcs {
			for _, it := range vc.items {
				all.WriteString(it.Text)
				all.WriteByte('\n')
			}
		}
		q := "(set-logic ALL)\n" + prelude.For(all.String()) + "(check-sat)\n"
		af, err := writeQuery(outDir, "axioms-consistent", q)
		if err == nil {
			ar := runCover(af, 3, seed, true)
			if ar.Verdict == "unsat" {
				fmt.Printf("TOOL-ERROR property=%s the axioms and assumed library facts used by this check are inconsistent (%s, file %s)\n", *prop, ar.Solver, af)
				return 2
			}
			axiomsVerdict = ar.Verdict + " (" + ar.Solver + ")"
		}
	}
	var results []*OblResult
	for _, vc := range vcs {
		for i, it := range vc.items {
			if it.Kind != ItemOblig {
				continue
			}
			if vc.contract != nil && vc.contract.CallsitesOnly && !vc.lockOnly && !(strings.HasPrefix(it.Name, "callsite:") || strings.HasPrefix(it.Name, "post:must-") || strings.HasPrefix(it.Name, "cover:") || strings.HasPrefix(it.Name, "reach:")) {
				continue
			}
			if vc.lockOnly && !(strings.HasPrefix(it.Name, "lock:") || strings.HasPrefix(it.Name, "pre:") && strings.Contains(it.Info, "held(") || strings.HasPrefix(it.Name, "callsite:") && (strings.Contains(it.Info, "held(") || strings.Contains(it.Info, "nolocks("))) {
				continue
			}
			r := &OblResult{Func: vc.contract.Pkg + "::" + vc.contract.Key + vc.instSuffix(), Name: it.Name, Info: it.Info, vc: vc, idx: i, Cover: strings.HasPrefix(it.Name, "cover:") || strings.HasPrefix(it.Name, "reach:"), Info2: strings.HasPrefix(it.Name, "reach:")}
			if it.Pos.IsValid() {
				r.Pos = fmt.Sprintf("%s:%d", strings.TrimPrefix(it.Pos.Filename, *repo+"/"), it.Pos.Line)
			}
			if it.Text == "true" {
				r.Verdict, r.Solver, r.Trivial = "unsat", "simplifier", true
			}
			if r.Info2 && *tier != "thorough" && !*verbose {
				continue // per-return reachability is informational: thorough tier (or -v) only
			}
			results = append(results, r)
		}
	}
	// call-site sweeps: every call of a swept callee in the package must be covered by a callsite clause
	for _, sd := range s.specs.Sweeps {
		if sd.Prop != *prop || *only != "" {
			continue
		}
		covered := map[string]bool{}
		for _, vc := range vcs {
			for k := range vc.coveredCallsites {
				covered[k] = true
			}
		}
		sites := s.sweepSites(sd)
		pc := &Contract{Key: "sweep(" + strings.Join(sd.Callees, ",") + ")", Pkg: sd.Pkg}
		pvc := newFnVC(s, nil, pc)
		for _, site := range sites {
			r := &OblResult{Func: sd.Pkg + "::" + pc.Key, Name: "sweep:" + site.key, Info: "every call of " + site.callee + " in the package is covered by a call-site requirement", Pos: site.pos, vc: pvc, Verdict: "unsat", Solver: "sweep", Trivial: true}
			if !covered[site.key] {
				r.Verdict = "uncovered"
				r.Output = "call site " + site.key + " at " + site.pos + " is not covered by any callsite clause of a contract for property " + *prop
			}
			results = append(results, r)
		}
	}
	var wg sync.WaitGroup
	sem := make(chan struct{}, 16)
	for _, r := range results {
		if r.Trivial {
			continue
		}
		wg.Add(1)
		go func(r *OblResult) {
			defer wg.Done()
			sem <- struct{}{}
			defer func() { <-sem }()
			q := r.vc.Query(r.idx, prelude, true)
			dir := filepath.Join(outDir, sanitizeFile(r.vc.contract.Key+r.vc.instSuffix()))
			file, err := writeQuery(dir, r.Name, q)
			if err != nil {
				r.Verdict = "error"
				r.Output = err.Error()
				return
			}
			r.File = file
			r.Query = file
			if len(q) > 4<<20 {
				r.Verdict = "too-large"
				return
			}
			to := timeout
			if r.Cover {
				to = 2
			}
			var res SolveResult
			if r.Cover {
				res = runCover(file, to, seed, !r.Info2)
			} else {
				res, _ = discharge(file, to, seed, all)
			}
			r.Verdict, r.Solver, r.Time, r.Output = res.Verdict, res.Solver, res.Time, res.Output
			if !r.Cover && r.Verdict != "unsat" && r.Verdict != "sat" {
				// candidate counterexample search on the ground part of the query
				gfile, err := writeQuery(dir, r.Name+".ground", GroundQuery(q))
				if err == nil {
					g := runSolver(solvers[0], gfile, 10, seed)
					r.Time += g.Time
					if g.Verdict == "sat" {
						r.Verdict = "sat"
						r.Solver = g.Solver + "(ground)"
						r.Output = g.Output
						r.File = gfile
						r.Ground = true
					}
				}
			}
		}(r)
	}
	wg.Wait()

	// second attempt for what is still undecided: the first pass runs up to 16 obligations at once, each racing several
	// solver processes, so on a machine that is busy with other work a query that normally takes two seconds can run
	// into the time-out.  Undecided obligations (no answer, or only a candidate model of the ground part) are tried
	// again, two at a time and with three times the time-out, before anything is reported.  Solvers are sound: more
	// time can only turn "no answer" into a definite one.
	{
		var again []*OblResult
		for _, r := range results {
			if r.Trivial || r.Cover || r.Verdict == "unsat" || r.Verdict == "too-large" || r.Verdict == "error" {
				continue
			}
			if r.Verdict == "sat" && !r.Ground {
				continue
			}
			again = append(again, r)
		}
		sem2 := make(chan struct{}, 2)
		var wg2 sync.WaitGroup
		for _, r := range again {
			wg2.Add(1)
			go func(r *OblResult) {
				defer wg2.Done()
				sem2 <- struct{}{}
				defer func() { <-sem2 }()
				file := r.Query
				if file == "" {
					return
				}
				res, _ := discharge(file, 3*timeout, seed+1, false)
				r.Time += res.Time
				if res.Verdict == "unsat" || res.Verdict == "sat" {
					r.Verdict, r.Solver, r.Output, r.File, r.Ground = res.Verdict, res.Solver+"(2nd attempt)", res.Output, file, false
				}
			}(r)
		}
		wg2.Wait()
	}

	// report
	violations := 0
	discharged := 0
	total := 0
	byBackend := map[string]int{}
	solverTime := 0.0
	var failed []*OblResult
	knownOpen := 0
	var unreachable []string
	covers := 0
	for _, r := range results {
		solverTime += r.Time
		if r.Cover {
			covers++
			if r.Info2 {
				if r.Verdict == "unsat" {
					unreachable = append(unreachable, fmt.Sprintf("%s %s", r.Func, r.Name))
					if *verbose {
						fmt.Printf("  UNREACHABLE-RETURN %s :: %s [%s]\n", r.Func, r.Name, r.Pos)
					}
				}
				continue
			}
			if r.Verdict == "unsat" {
				failed = append(failed, r)
			}
			if *verbose {
				fmt.Printf("  %-8s %-7s %6.2fs %s :: %s\n", r.Verdict, r.Solver, r.Time, r.Func, r.Name)
			}
			continue
		}
		total++
		if r.Verdict == "unsat" {
			discharged++
			byBackend[r.Solver]++
		} else {
			failed = append(failed, r)
		}
		if *verbose || r.Verdict != "unsat" {
			fmt.Printf("  %-8s %-7s %6.2fs %s :: %s  [%s] %s\n", r.Verdict, r.Solver, r.Time, r.Func, r.Name, r.Pos, r.Info)
		}
	}
	replayDir := filepath.Join(*verif, "out", "replay"+os.Getenv("GOVC_RUN"), *prop)
	os.MkdirAll(replayDir, 0o755)
	kf := loadKnownFindings(*verif)
	failedFn := map[string]bool{}
	for _, r := range failed {
		if !r.Cover {
			failedFn[r.Func] = true
		}
	}
	for _, r := range failed {
		if r.Cover && failedFn[r.Func] {
			continue // a failed obligation was assumed afterwards: the unreachable return is a consequence, not a finding
		}
		if f := kf.match(*prop, r); f != nil {
			fmt.Printf("KNOWN-FINDING: property=%s %s\n", *prop, f.What)
			total-- // recorded defect: not part of the proved obligations, listed separately in the evidence
			knownOpen++
			continue
		}
		violations++
		rp := filepath.Join(replayDir, sanitizeFile(r.vc.contract.Key+"__"+r.Name)+".json")
		writeReplay(rp, *prop, r)
		suffix := " no-failing-input-found"
		if r.Verdict == "sat" && len(r.vc.obs) > 0 {
			// second solver call: values of the observable inputs in the counter-model
			data, err := os.ReadFile(r.File)
			if err == nil {
				vf, err := writeQuery(filepath.Dir(r.File), r.Name+".values", ValueQuery(GroundQuery(string(data)), r.vc.obs))
				if err == nil {
					vr := runSolver(solvers[0], vf, 20, seed)
					r.Values = parseValues(vr.Output, r.vc.obs)
				}
			}
			writeReplay(rp, *prop, r)
		}
		if r.Verdict == "sat" || strings.HasPrefix(r.Name, "lock:") {
			if ok := tryReplay(s, *verif, *prop, r, rp); ok {
				suffix = ""
			}
		}
		what := "obligation " + r.Name + " of " + r.Func + " not discharged (" + r.Verdict + ")"
		if r.Cover {
			what = "vacuity guard failed for " + r.Func + " (contradictory assumptions)"
		}
		fmt.Printf("%s\n", what)
		fmt.Printf("VIOLATION property=%s replay=%s%s\n", *prop, rp, suffix)
	}
	if total < cfg.MinObl {
		fmt.Printf("TOOL-ERROR property=%s only %d obligations generated, expected at least %d (vacuity guard)\n", *prop, total, cfg.MinObl)
		return 2
	}
	wall := time.Since(t0).Seconds()
	if knownOpen > 0 {
		fmt.Printf("property %s: %d obligations fail as recorded in known_findings.json (open findings)\n", *prop, knownOpen)
	}
	fmt.Printf("property %s: %d functions under contract, %d obligations, %d discharged, %d covers, load %.1fs gen %.1fs wall %.1fs solver %.1fs\n",
		*prop, len(vcs), total, discharged, covers, tLoad, tGen-tLoad, wall, solverTime)
	if !*noEvidence && *only == "" && *overlayF == "" {
		writeEvidence(s, *verif, *prop, *tier, seed, cfg, vcs, results, funcsUnder, trustedBodies, byBackend, solverTime, wall, violations, total, discharged, kf, unreachable)
	}
	if violations > 0 {
		return 1
	}
	return 0
}

// lemmaUsed reports whether a spec function mentioned by the lemma occurs in some verification condition of this run.
func lemmaUsed(l *FnVC, vcs []*FnVC) bool {
	syms := map[string]bool{}
	for _, it := range l.items {
		for _, t := range smtTokens(it.Text) {
			if strings.HasPrefix(t, "sf_") || strings.HasPrefix(t, "|sf_") {
				syms[t] = true
			}
		}
	}
	for _, vc := range vcs {
		if strings.HasPrefix(vc.contract.Key, "lemma:") {
			continue
		}
		for _, it := range vc.items {
			for _, t := range smtTokens(it.Text) {
				if syms[t] {
					return true
				}
			}
		}
	}
	return false
}

