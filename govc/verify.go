package main

import (
	"fmt"
	"go/token"
	"go/types"
	"strings"

	"golang.org/x/tools/go/ssa"
)

// extra fields of FnVC used by verification of the top-level function
type vcTop struct{}

func tokenOf(s string) token.Token {
	switch s {
	case "&":
		return token.AND
	case "|":
		return token.OR
	case "^":
		return token.XOR
	}
	return token.ILLEGAL
}

// verifyFunc generates the verification conditions of fn against contract c.
func (s *Session) verifyFunc(fn *ssa.Function, c *Contract) (vc *FnVC, err error) {
	vc = newFnVC(s, fn, c)
	defer func() {
		if r := recover(); r != nil {
			if fe, ok := r.(fatalErr); ok {
				err = fmt.Errorf("%s", fe.msg)
				return
			}
			panic(r)
		}
	}()
	fr := vc.newFrame(fn, nil)
	vc.top = fr
	st := vc.entry
	fr.oldState = st.clone()
	// parameters
	var args []Term
	for _, p := range fn.Params {
		srt := s.te.SortOf(p.Type())
		t := vc.declOnce("p_"+p.Name(), srt)
		vc.inputs = append(vc.inputs, InputVar{Name: t.S, Desc: "parameter " + p.Name(), Sort: srt})
		fr.assumeTyped(p.Type(), t)
		if isPointerLike(p.Type()) {
			if c.Nullable[p.Name()] {
				fr.nullable[p] = true
				vc.assume(Term{fmt.Sprintf("(old_alloc %s)", t.S), SBool})
			} else if _, isPtr := p.Type().Underlying().(*types.Pointer); isPtr {
				vc.assume(Term{fmt.Sprintf("(and (not (= %s 0)) (old_alloc %s))", t.S, t.S), SBool})
				vc.assumes["pointer parameter "+p.Name()+" of "+fn.Name()+" assumed non-nil"] = true
			} else {
				vc.assume(Term{fmt.Sprintf("(old_alloc %s)", t.S), SBool})
			}
		}
		if srt == SSlice {
			vc.assume(Term{fmt.Sprintf("(old_alloc (sarr %s))", t.S), SBool})
		}
		args = append(args, t)
	}
	distinctMutexes := func(typ types.Type, ref Term) {
		if pt := derefType(typ); pt != nil && s.te.isStructVal(pt) {
			stt := pt.Underlying().(*types.Struct)
			var ptrs []string
			for k := 0; k < stt.NumFields(); k++ {
				if mt := derefType(stt.Field(k).Type()); mt != nil {
					if n, ok := types.Unalias(mt).(*types.Named); ok && (qualName(n) == "sync.Mutex" || qualName(n) == "sync.RWMutex") {
						ptrs = append(ptrs, s.te.Load(st, s.te.FieldLoc(pt, k, ref)).S)
					}
				}
			}
			if len(ptrs) > 1 {
				vc.assume(Term{"(distinct " + strings.Join(ptrs, " ") + ")", SBool})
			}
		}
	}
	for i, p := range fn.Params {
		// distinct mutex-pointer fields of a parameter's struct hold distinct mutexes (listed assumption)
		if pt := derefType(p.Type()); pt != nil && s.te.isStructVal(pt) {
			stt := pt.Underlying().(*types.Struct)
			var ptrs []Term
			for k := 0; k < stt.NumFields(); k++ {
				if mt := derefType(stt.Field(k).Type()); mt != nil {
					if n, ok := types.Unalias(mt).(*types.Named); ok && (qualName(n) == "sync.Mutex" || qualName(n) == "sync.RWMutex") {
						ptrs = append(ptrs, s.te.Load(st, s.te.FieldLoc(pt, k, args[i])))
					}
				}
			}
			if len(ptrs) > 1 {
				var ss []string
				for _, t := range ptrs {
					ss = append(ss, t.S)
				}
				vc.assume(Term{"(distinct " + strings.Join(ss, " ") + ")", SBool})
			}
		}
		fr.vals[p] = args[i]
		fr.paramVals[p.Name()] = args[i]
		fr.observe(p.Name(), p.Type(), args[i], 0, &vc.obs)
	}
	// free variables of an anonymous function verified on its own: unknown captured values
	for _, fv := range fn.FreeVars {
		srt := s.te.SortOf(fv.Type())
		t := vc.declOnce("fv_"+fv.Name(), srt)
		fr.assumeTyped(fv.Type(), t)
		if _, isPtr := fv.Type().Underlying().(*types.Pointer); isPtr {
			vc.assume(Term{fmt.Sprintf("(and (not (= %s 0)) (old_alloc %s))", t.S, t.S), SBool})
		}
		fr.vals[fv] = t
		if fvIsAddr(fv) {
			// the cell of a variable captured by reference is known only to the enclosing function and this closure:
			// unknown callees cannot change it
			fr.unescaped[t.S] = true
		}
	}
	{
		// variables captured by reference live in cells of their own: distinct variables, distinct cells
		var cells []string
		for _, fv := range fn.FreeVars {
			if t, ok := fr.vals[fv]; ok && fvIsAddr(fv) {
				cells = append(cells, t.S)
			}
		}
		if len(cells) > 1 {
			vc.assume(Term{"(distinct " + strings.Join(cells, " ") + ")", SBool})
		}
	}
	for _, fv := range fn.FreeVars {
		// the same for a struct pointer captured by value
		if t, ok := fr.vals[fv]; ok {
			if !fvIsAddr(fv) {
				distinctMutexes(fv.Type(), t)
			} else if et := derefType(fv.Type()); et != nil && derefType(et) != nil {
				// captured by reference: the variable's current value
				distinctMutexes(et, s.te.Load(st, fr.addr(fv)))
			}
		}
	}
	// requires
	entryEnv := func(state *State) *Env {
		env := fr.specEnv(state, fr.oldState)
		env.entryOnly = true
		return env
	}
	if c.Implicit {
		// implicit contract of the lock sweep: the function is entered with no lock of this goroutine held
		w := st.Get("ghost_LockW", arraySort(SInt, SBool))
		r := st.Get("ghost_LockR", arraySort(SInt, SBool))
		vc.assume(Term{fmt.Sprintf("(forall ((m Int)) (! (and (not (select %s m)) (not (select %s m))) :pattern ((select %s m)) :pattern ((select %s m))))", w.S, r.S, w.S, r.S), SBool})
	}
	for k, r := range c.Requires {
		t, e := entryEnv(st).evalBool(r.E)
		if e != nil {
			return vc, fmt.Errorf("%s requires %s: %v", c.Key, clauseName(r, k), e)
		}
		vc.assume(t)
	}
	// modifies set
	for _, m := range c.Modifies {
		ts, e := entryEnv(st).evalModTargets(m)
		if e != nil {
			return vc, fmt.Errorf("%s modifies %s: %v", c.Key, m, e)
		}
		for _, t := range ts {
			if t.all && !strings.HasPrefix(t.sort, "(Array Int ") {
				vc.modGlobals = append(vc.modGlobals, t.heap)
			}
			vc.modSet = append(vc.modSet, t)
		}
	}
	for _, g := range c.Ghosts {
		if g.At == "entry" {
			fr.applyGhost(entryEnv(st), g)
		}
	}
	exitReach, results, exitSt := fr.run(tTrue, st, args)
	if len(fr.rets) == 0 {
		vc.note("function has no reachable return")
		return vc, nil
	}
	// a call-site clause that matches no call in the body is a stale (or misspelt) contract, never a silent pass
	for _, cr := range c.Callsites {
		hit := false
		for k := range vc.coveredCallsites {
			if strings.HasPrefix(k, cr.Callee+"@") {
				hit = true
			}
		}
		if !hit && !cr.Optional {
			// not an error: on a changed tree the call may legitimately be gone (and whatever replaced it is judged by the
			// other obligations and the sweeps).  tools/run_all.sh refuses such a line on the unchanged tree, where it
			// means a misspelt callee.
			fmt.Printf("UNMATCHED-CALLSITE %s: callsite clause for %s matches no call in the function body\n", c.Key, cr.Callee)
			vc.note("callsite clause for " + cr.Callee + " matches no call")
		}
	}
	// postconditions: proved per return statement, each in the state of that return (the merged exit state is a nest of
	// if-then-else terms over the paths that only burdens the solver)
	_ = exitSt
	_ = results
	for ri, r := range fr.rets {
		if len(fr.rets) > 1 {
			vc.curGroup = fmt.Sprintf("ret%d", ri+1)
		}
		post := r.st.clone()
		env := fr.specEnv(post, fr.oldState)
		env.entryOnly = true
		for i, rn := range c.Results {
			if i < len(r.vals) {
				env.vars[rn] = Val{T: r.vals[i], Typ: fn.Signature.Results().At(i).Type()}
			}
		}
		for _, g := range c.Ghosts {
			if g.At == "return" {
				fr.applyGhost(env, g)
			}
		}
		for k, e := range c.Ensures {
			t, er := env.evalBool(e.E)
			if er != nil {
				return vc, fmt.Errorf("%s ensures %s: %v", c.Key, clauseName(e, k), er)
			}
			name := fmt.Sprintf("post:%s", clauseName(e, k))
			if len(fr.rets) > 1 {
				name = fmt.Sprintf("post:%s@ret%d", clauseName(e, k), ri+1)
			}
			info := e.Text
			if len(fr.rets) > 1 {
				info = fmt.Sprintf("%s  (at the return on line %d)", e.Text, s.pos(r.pos).Line)
			}
			vc.oblige(name, r.reach, t, info, fn.Pos())
		}
	}
	vc.curGroup = ""
	if s.probeFalse {
		vc.oblige("probe:false", exitReach, tFalse, "vacuity probe: must NOT be provable", fn.Pos())
	}
	// per-return reachability (informational): an unreachable return under the contract is reported in the evidence;
	// a success path that silently became unreachable (contradictory assumptions) shows up here.
	for i, r := range fr.rets {
		vc.items = append(vc.items, Item{Kind: ItemOblig, Text: "(not " + r.reach.S + ")", Name: fmt.Sprintf("reach:return%d@%d", i+1, s.pos(r.pos).Line), Info: "informational: is this return reachable under the contract?", Pos: s.pos(r.pos), Kept: false})
	}
	// vacuity: some return must be reachable under all assumptions
	vc.items = append(vc.items, Item{Kind: ItemOblig, Text: "(not " + exitReach.S + ")", Name: "cover:return", Info: "vacuity guard: a return is reachable (this query must be satisfiable)", Pos: s.pos(fn.Pos()), Kept: false})
	return vc, nil
}
