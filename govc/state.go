package main

import (
	"fmt"
	"sort"
	"strings"
)

// genInfo describes how lazily-materialised heap variables are obtained for a state generation.
type genInfo struct {
	kind    string // "entry", "havoc", "merge"
	conds   []Term // merge: edge conditions
	parents []*State
	id      int
	// havoc with preservation: H' = store(fresh, ref, select(prev, ref)) for each preserved ref
	preserve []Term
	prev     *State
}

// State is the symbolic store for heaps, ghost variables and globals: name -> current term.
// Names that were never touched are materialised lazily according to the generation.
type State struct {
	vc  *FnVC
	h   map[string]Term
	gen *genInfo
}

func (vc *FnVC) newEntryState() *State {
	return &State{vc: vc, h: map[string]Term{}, gen: &genInfo{kind: "entry"}}
}

func (s *State) clone() *State {
	n := &State{vc: s.vc, h: make(map[string]Term, len(s.h)), gen: s.gen}
	for k, v := range s.h {
		n.h[k] = v
	}
	return n
}

// Get returns the current term of the heap variable name with the given sort.
func (s *State) Get(name, sort string) Term {
	if t, ok := s.h[name]; ok {
		return t
	}
	var t Term
	switch s.gen.kind {
	case "entry":
		t = s.vc.entryVar(name, sort)
	case "havoc":
		g := s.gen
		if g.prev != nil && (strings.HasPrefix(name, "ghost_") || strings.HasPrefix(name, "seen_") || s.vc.sess.immutableHeaps[name]) {
			// ghost state is only changed by contracts, never by unknown code
			t = g.prev.Get(name, sort)
			break
		}
		cn := fmt.Sprintf("%s!h%d", name, g.id)
		s.vc.declOnce(cn, sort)
		t = Term{smtName(cn), sort}
		if name == "clk" {
			// the allocation clock only moves forward
			if g.prev != nil {
				s.vc.assume(tLe(g.prev.Get("clk", SInt), t))
			}
			break
		}
		s.vc.assume(s.vc.sess.te.refBound(name, t, s.Get("clk", SInt)))
		if len(g.preserve) > 0 && g.prev != nil && isArraySortIdx(sort, SInt) {
			pv := g.prev.Get(name, sort)
			for _, r := range g.preserve {
				t = tStore(t, r, tSelect(pv, r))
			}
			t = s.vc.define(fmt.Sprintf("%s!p%d", name, g.id), t)
		}
	case "merge":
		g := s.gen
		var vals []Term
		same := true
		for _, p := range g.parents {
			v := p.Get(name, sort)
			vals = append(vals, v)
			if v.S != vals[0].S {
				same = false
			}
		}
		if same {
			t = vals[0]
		} else {
			t = vals[len(vals)-1]
			for i := len(vals) - 2; i >= 0; i-- {
				t = tIte(g.conds[i], vals[i], t)
			}
			t = s.vc.define(fmt.Sprintf("%s!m%d", name, g.id), t)
		}
	}
	s.h[name] = t
	return t
}

func isArraySortIdx(s, idx string) bool {
	if len(s) < 7 || s[:7] != "(Array " {
		return false
	}
	i, _ := splitArraySort(s)
	return i == idx
}

func (s *State) Set(name string, t Term) { s.h[name] = t }

// HavocAll replaces the whole store by unknown values, preserving the objects in keep.
func (s *State) HavocAll(keep []Term) *State {
	prev := s.clone()
	s.vc.genCounter++
	n := &State{vc: s.vc, h: map[string]Term{}, gen: &genInfo{kind: "havoc", id: s.vc.genCounter, preserve: keep, prev: prev}}
	return n
}

// Havoc replaces one heap variable by a fresh unknown.
func (s *State) Havoc(name, sort string) Term {
	s.vc.genCounter++
	cn := fmt.Sprintf("%s!v%d", name, s.vc.genCounter)
	s.vc.declOnce(cn, sort)
	t := Term{smtName(cn), sort}
	if name == "clk" {
		s.vc.assume(tLe(s.Get("clk", SInt), t))
		s.h[name] = t
		return t
	}
	s.h[name] = t
	s.vc.assume(s.vc.sess.te.refBound(name, t, s.Get("clk", SInt)))
	return t
}

// mergeStates merges states under the given conditions (conds[i] selects states[i]; the last is the default).
func mergeStates(vc *FnVC, states []*State, conds []Term) *State {
	if len(states) == 1 {
		return states[0].clone()
	}
	allSameGen := true
	for _, st := range states {
		if st.gen != states[0].gen {
			allSameGen = false
		}
	}
	keys := map[string]string{}
	for _, st := range states {
		for k, v := range st.h {
			keys[k] = v.Sort
		}
	}
	var n *State
	if allSameGen {
		n = &State{vc: vc, h: map[string]Term{}, gen: states[0].gen}
	} else {
		vc.genCounter++
		n = &State{vc: vc, h: map[string]Term{}, gen: &genInfo{kind: "merge", id: vc.genCounter, conds: conds, parents: states}}
	}
	ks := make([]string, 0, len(keys))
	for k := range keys {
		ks = append(ks, k)
	}
	sort.Strings(ks)
	for _, k := range ks {
		srt := keys[k]
		var vals []Term
		same := true
		for _, st := range states {
			v := st.Get(k, srt)
			vals = append(vals, v)
			if v.S != vals[0].S {
				same = false
			}
		}
		if same {
			n.h[k] = vals[0]
			continue
		}
		t := vals[len(vals)-1]
		for i := len(vals) - 2; i >= 0; i-- {
			t = tIte(conds[i], vals[i], t)
		}
		vc.genCounter++
		n.h[k] = vc.define(fmt.Sprintf("%s!j%d", k, vc.genCounter), t)
	}
	return n
}
