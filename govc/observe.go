package main

import (
	"fmt"
	"go/types"
	"strings"
)

// Observable is a term whose model value is reported for replay.
type Observable struct {
	Desc string
	Term string
}

// observe lists the observable input terms reachable from value v of type t (entry state).
func (fr *Frame) observe(desc string, t types.Type, v Term, depth int, out *[]Observable) {
	te := fr.te()
	st := fr.vc.entry
	add := func(d string, term string) { *out = append(*out, Observable{d, term}) }
	switch v.Sort {
	case SInt, SBool:
		add(desc, v.S)
		if pt := derefType(t); pt != nil && depth < 2 {
			if te.isStructVal(pt) {
				stt := pt.Underlying().(*types.Struct)
				for i := 0; i < stt.NumFields() && i < 24; i++ {
					loc := te.FieldLoc(pt, i, v)
					if loc.Kind == "obj" {
						if te.isStructVal(loc.Typ) {
							fr.observeStructObj(desc+"."+stt.Field(i).Name(), loc.Typ, loc.Base, depth+1, out)
						}
						continue
					}
					fr.observe(desc+"."+stt.Field(i).Name(), loc.Typ, te.Load(st, loc), depth+1, out)
				}
			}
		}
	case SStr:
		add(desc+".len", strLen(v).S)
		for i := 0; i < 24; i++ {
			add(fmt.Sprintf("%s[%d]", desc, i), strAt(v, tInt(int64(i))).S)
		}
	case SSlice:
		add(desc+".len", sLen(v).S)
		add(desc+".cap", sCap(v).S)
		if sl, ok := t.Underlying().(*types.Slice); ok && depth < 3 {
			e := sl.Elem()
			n := 16
			if te.isAggregate(e) {
				n = 4
			}
			for i := 0; i < n; i++ {
				loc := te.ElemLoc(e, sArr(v), te.sIdx(sOff(v), tInt(int64(i))))
				if loc.Kind == "obj" {
					if te.isStructVal(e) {
						fr.observeStructObj(fmt.Sprintf("%s[%d]", desc, i), e, loc.Base, depth+1, out)
					}
					continue
				}
				ev := te.Load(st, loc)
				if ev.Sort == SInt || ev.Sort == SBool {
					add(fmt.Sprintf("%s[%d]", desc, i), ev.S)
				} else if depth < 2 {
					fr.observe(fmt.Sprintf("%s[%d]", desc, i), e, ev, depth+2, out)
				}
			}
		}
	case STime:
		add(desc+".inst", "(tinst "+v.S+")")
		add(desc+".loc", "(tloc "+v.S+")")
	case SIface:
		add(desc+".tag", "(itag "+v.S+")")
		add(desc+".val", "(ival "+v.S+")")
	default:
		if te.isStructVal(t) {
			si := te.StructInfo(t)
			for i := 0; i < si.st.NumFields() && i < 24; i++ {
				fr.observe(desc+"."+si.st.Field(i).Name(), si.st.Field(i).Type(), Term{app(si.fields[i], v.S), si.fsorts[i]}, depth+1, out)
			}
			return
		}
		if strings.HasPrefix(v.Sort, "(Array Int ") {
			if a, ok := isArray(t); ok {
				es := arrayElemSort(v.Sort)
				for i := int64(0); i < a.Len() && i < 16; i++ {
					fr.observe(fmt.Sprintf("%s[%d]", desc, i), a.Elem(), Term{app("select", v.S, fmt.Sprint(i)), es}, depth+1, out)
				}
			}
			return
		}
		add(desc, v.S)
	}
}

func (fr *Frame) observeStructObj(desc string, t types.Type, ref Term, depth int, out *[]Observable) {
	te := fr.te()
	if depth > 3 {
		return
	}
	stt := t.Underlying().(*types.Struct)
	for i := 0; i < stt.NumFields() && i < 24; i++ {
		loc := te.FieldLoc(t, i, ref)
		if loc.Kind == "obj" {
			if te.isStructVal(loc.Typ) {
				fr.observeStructObj(desc+"."+stt.Field(i).Name(), loc.Typ, loc.Base, depth+1, out)
			} else if a, ok := isArray(loc.Typ); ok && a.Len() <= 16 {
				for k := int64(0); k < a.Len(); k++ {
					el := te.ElemLoc(a.Elem(), loc.Base, tInt(k))
					if el.Kind == "obj" {
						if te.isStructVal(a.Elem()) {
							fr.observeStructObj(fmt.Sprintf("%s.%s[%d]", desc, stt.Field(i).Name(), k), a.Elem(), el.Base, depth+1, out)
						}
					} else {
						fr.observe(fmt.Sprintf("%s.%s[%d]", desc, stt.Field(i).Name(), k), a.Elem(), te.Load(fr.vc.entry, el), depth+1, out)
					}
				}
			}
			continue
		}
		fr.observe(desc+"."+stt.Field(i).Name(), loc.Typ, te.Load(fr.vc.entry, loc), depth+1, out)
	}
}

// ValueQuery turns a (ground) query into one that prints the values of the observables.
func ValueQuery(q string, obs []Observable) string {
	q = strings.Replace(q, "(get-model)\n", "", 1)
	var b strings.Builder
	b.WriteString(q)
	for _, o := range obs {
		b.WriteString("(get-value (" + o.Term + "))\n")
	}
	return b.String()
}

// parseValues parses the output of a ValueQuery: one "((term value))" per observable after the sat line.
func parseValues(out string, obs []Observable) map[string]string {
	res := map[string]string{}
	lines := strings.SplitN(out, "\n", 2)
	if len(lines) < 2 || strings.TrimSpace(lines[0]) != "sat" {
		return res
	}
	rest := lines[1]
	for _, o := range obs {
		rest = strings.TrimLeft(rest, " \n")
		if rest == "" {
			break
		}
		sx, n := readSexp(rest)
		rest = rest[n:]
		// sx = ((term value))
		inner := strings.TrimSpace(sx)
		if !strings.HasPrefix(inner, "((") {
			continue
		}
		inner = inner[2 : len(inner)-2]
		// value is the last sexp
		_, tn := readSexpBalanced(inner)
		val := strings.TrimSpace(inner[tn:])
		res[o.Desc] = strings.Join(strings.Fields(val), " ")
	}
	return res
}

// readSexpBalanced reads one s-expression or atom (handling |quoted| symbols).
func readSexpBalanced(s string) (string, int) {
	s0 := s
	i := 0
	for i < len(s0) && (s0[i] == ' ' || s0[i] == '\n') {
		i++
	}
	if i >= len(s0) {
		return "", i
	}
	if s0[i] == '(' {
		d := 0
		for j := i; j < len(s0); j++ {
			switch s0[j] {
			case '(':
				d++
			case ')':
				d--
				if d == 0 {
					return s0[i : j+1], j + 1
				}
			case '|':
				k := strings.IndexByte(s0[j+1:], '|')
				if k >= 0 {
					j += k + 1
				}
			}
		}
		return s0[i:], len(s0)
	}
	if s0[i] == '|' {
		k := strings.IndexByte(s0[i+1:], '|')
		if k >= 0 {
			return s0[i : i+k+2], i + k + 2
		}
	}
	j := i
	for j < len(s0) && s0[j] != ' ' && s0[j] != '\n' && s0[j] != ')' {
		j++
	}
	return s0[i:j], j
}
