package main

import (
	"fmt"
	"go/constant"
	"go/token"
	"go/types"
	"math/big"
	"strings"

	"golang.org/x/tools/go/ssa"
)

func (fr *Frame) constTerm(c *ssa.Const) Term {
	te := fr.te()
	t := c.Type()
	if c.Value == nil {
		return te.Zero(t)
	}
	switch c.Value.Kind() {
	case constant.Bool:
		return tBool(constant.BoolVal(c.Value))
	case constant.Int:
		s := te.SortOf(t)
		if s == SFloat {
			return fr.floatConst(c.Value.ExactString())
		}
		bi, _ := new(big.Int).SetString(c.Value.ExactString(), 10)
		return Term{bigTerm(bi), SInt}
	case constant.String:
		return fr.vc.sess.strLit(constant.StringVal(c.Value))
	case constant.Float, constant.Complex:
		if te.SortOf(t) == SInt {
			f, _ := constant.Float64Val(c.Value)
			return tInt(int64(f))
		}
		return fr.floatConst(c.Value.ExactString())
	}
	panic("constTerm: unhandled constant " + c.String())
}

func (fr *Frame) floatConst(s string) Term {
	n := smtName("flt_" + mangle(s))
	fr.te().pre.Add("const:"+n, fmt.Sprintf("(declare-const %s Float)", n))
	return Term{n, SFloat}
}

// strLit returns the constant for a string literal, with its length and characters axiomatised.
func (s *Session) strLit(v string) Term {
	if v == "" {
		return Term{"s_empty", SStr}
	}
	if n, ok := s.strLits[v]; ok {
		return Term{n, SStr}
	}
	n := fmt.Sprintf("strlit%d", len(s.strLits)+1)
	s.strLits[v] = n
	s.pre.Add("const:"+n, fmt.Sprintf("(declare-const %s Str) ; %q", n, truncate(v, 60)))
	var parts []string
	parts = append(parts, fmt.Sprintf("(= (s_len %s) %d)", n, len(v)))
	if len(v) <= 128 {
		for i := 0; i < len(v); i++ {
			parts = append(parts, fmt.Sprintf("(= (s_at %s %d) %d)", n, i, v[i]))
		}
	}
	s.pre.Add("ax:"+n, "(assert (and "+strings.Join(parts, " ")+"))")
	return Term{n, SStr}
}

func truncate(s string, n int) string {
	if len(s) > n {
		return s[:n] + "..."
	}
	return s
}

func tAdd(a, b Term) Term {
	if x, ok := parseNum(a.S); ok {
		if y, ok := parseNum(b.S); ok {
			return Term{bigTerm(new(big.Int).Add(x, y)), SInt}
		}
		if x.Sign() == 0 {
			return b
		}
	}
	if y, ok := parseNum(b.S); ok && y.Sign() == 0 {
		return a
	}
	return Term{app("+", a.S, b.S), SInt}
}

func tSub(a, b Term) Term {
	if y, ok := parseNum(b.S); ok {
		if x, ok := parseNum(a.S); ok {
			return Term{bigTerm(new(big.Int).Sub(x, y)), SInt}
		}
		if y.Sign() == 0 {
			return a
		}
	}
	return Term{app("-", a.S, b.S), SInt}
}

func tMul(a, b Term) Term {
	if x, ok := parseNum(a.S); ok {
		if y, ok := parseNum(b.S); ok {
			return Term{bigTerm(new(big.Int).Mul(x, y)), SInt}
		}
	}
	return Term{app("*", a.S, b.S), SInt}
}

func tLe(a, b Term) Term {
	if x, ok := parseNum(a.S); ok {
		if y, ok := parseNum(b.S); ok {
			return tBool(x.Cmp(y) <= 0)
		}
	}
	return Term{app("<=", a.S, b.S), SBool}
}
func tLt(a, b Term) Term {
	if x, ok := parseNum(a.S); ok {
		if y, ok := parseNum(b.S); ok {
			return tBool(x.Cmp(y) < 0)
		}
	}
	return Term{app("<", a.S, b.S), SBool}
}

func sArr(s Term) Term { return fieldOf(s, "mkSlice", 0, "sarr", SInt) }
func sOff(s Term) Term { return fieldOf(s, "mkSlice", 1, "soff", SInt) }

// sIdx is the position of element i of a slice with offset off inside its backing array.  It is an opaque function
// with the defining axiom sidx(o, i) = o + i: quantified contracts are instantiated by matching element reads, and a
// syntactic "+" inside the read (rewritten at will by the solver's arithmetic normaliser) makes that matching fail.
func (te *TypeEnv) sIdx(off, i Term) Term {
	if off.S == "0" {
		return i
	}
	if _, ok := parseNum(off.S); ok {
		if _, ok := parseNum(i.S); ok {
			return tAdd(off, i)
		}
	}
	if strings.HasPrefix(off.S, "(sidx ") {
		// element j of s[a:] is element a+j of s: flatten so that facts stated about s[k] match (done on the term,
		// not by an axiom: a quantified re-association rule feeds the solver's instantiation loop)
		if parts := splitSexp(off.S[1 : len(off.S)-1]); len(parts) == 3 {
			return te.sIdx(Term{parts[1], SInt}, tAdd(Term{parts[2], SInt}, i))
		}
	}
	te.pre.Add("fn:sidx", "(declare-fun sidx (Int Int) Int)")
	te.pre.Add("ax:sidx", "(assert (forall ((o Int) (i Int)) (! (= (sidx o i) (+ o i)) :pattern ((sidx o i)))))")
	return Term{app("sidx", off.S, i.S), SInt}
}
func sLen(s Term) Term { return fieldOf(s, "mkSlice", 2, "slen", SInt) }
func sCap(s Term) Term { return fieldOf(s, "mkSlice", 3, "scap", SInt) }

// fieldOf projects component i of a constructor application when syntactically available.
// defBodies maps the names introduced by FnVC.define (of the verification condition under construction) to their bodies,
// so that a projection of a named constructor term still folds to the component.
var defBodies = map[string]string{}

func fieldOf(t Term, ctor string, i int, acc string, sort string) Term {
	if b, ok := defBodies[t.S]; ok && strings.HasPrefix(b, "("+ctor+" ") {
		t = Term{b, t.Sort}
	}
	if strings.HasPrefix(t.S, "("+ctor+" ") {
		parts := splitSexp(t.S[len(ctor)+2 : len(t.S)-1])
		if i < len(parts) {
			return Term{parts[i], sort}
		}
	}
	return Term{app(acc, t.S), sort}
}

func splitSexp(s string) []string {
	var out []string
	d := 0
	start := -1
	for i := 0; i < len(s); i++ {
		c := s[i]
		switch {
		case c == '(':
			if d == 0 && start < 0 {
				start = i
			}
			d++
		case c == ')':
			d--
			if d == 0 {
				out = append(out, s[start:i+1])
				start = -1
			}
		case c == ' ':
			if d == 0 && start >= 0 {
				out = append(out, s[start:i])
				start = -1
			}
		case c == '|':
			if d == 0 && start < 0 {
				start = i
			}
			j := strings.IndexByte(s[i+1:], '|')
			if j >= 0 {
				i += j + 1
			}
		default:
			if d == 0 && start < 0 {
				start = i
			}
		}
	}
	if start >= 0 {
		out = append(out, s[start:])
	}
	return out
}

func mkSlice(arr, off, ln, cp Term) Term {
	return Term{app("mkSlice", arr.S, off.S, ln.S, cp.S), SSlice}
}

func (fr *Frame) pos(ins ssa.Instruction) token.Pos {
	if p := ins.Pos(); p.IsValid() {
		return p
	}
	// search backwards for a position
	b := ins.Block()
	for i := len(b.Instrs) - 1; i >= 0; i-- {
		if b.Instrs[i] == ins {
			for j := i; j >= 0; j-- {
				if p := b.Instrs[j].Pos(); p.IsValid() {
					return p
				}
			}
		}
	}
	return fr.fn.Pos()
}

func (fr *Frame) safe(kind string, cond Term, ins ssa.Instruction, info string) {
	if fr.vc.sess.noSafe {
		return
	}
	p := fr.pos(ins)
	pp := fr.vc.sess.pos(p)
	name := fmt.Sprintf("safe:%s@%s:%d", kind, fr.fn.Name(), pp.Line)
	fr.vc.oblige(name, fr.curReach, cond, info, p)
}

func (fr *Frame) setVal(v ssa.Value, t Term) {
	if len(t.S) > 40 {
		t = fr.vc.define(fr.vname(v), t)
	}
	fr.vals[v] = t
}

func (fr *Frame) execInstr(ins ssa.Instruction) {
	vc := fr.vc
	te := fr.te()
	switch ins := ins.(type) {
	case *ssa.DebugRef:
		return
	case *ssa.Alloc:
		pt := derefType(ins.Type())
		ref := fr.newRef("alloc_" + ins.Comment)
		fr.vals[ins] = ref
		loc := te.PtrLoc(pt, ref)
		te.Store(fr.cur, loc, te.Zero(pt))
		if loc.Kind != "obj" {
			fr.locs[ins] = loc
		}
		fr.unescaped[ref.S] = true
		if n, ok := types.Unalias(pt).(*types.Named); ok && n.Obj().Pkg() != nil && n.Obj().Pkg().Path() == "sync" && (n.Obj().Name() == "Mutex" || n.Obj().Name() == "RWMutex") {
			// a mutex that has just been created is not held by anybody
			for _, h := range []string{"ghost_LockW", "ghost_LockR"} {
				fr.vc.assume(tNot(tSelect(fr.cur.Get(h, arraySort(SInt, SBool)), ref)))
			}
		}
		if stt, ok := pt.Underlying().(*types.Struct); ok {
			// ... and neither are the mutexes embedded by value in a struct that has just been created
			for i := 0; i < stt.NumFields(); i++ {
				n, ok := types.Unalias(stt.Field(i).Type()).(*types.Named)
				if !ok || (qualName(n) != "sync.Mutex" && qualName(n) != "sync.RWMutex") {
					continue
				}
				lref := fr.lockRef(te.FieldLoc(pt, i, ref))
				for _, h := range []string{"ghost_LockW", "ghost_LockR"} {
					fr.vc.assume(tNot(tSelect(fr.cur.Get(h, arraySort(SInt, SBool)), lref)))
				}
			}
		}
	case *ssa.FieldAddr:
		st := derefType(ins.X.Type())
		base := fr.objBase(ins.X)
		fr.checkNil(ins.X, base, ins)
		loc := te.FieldLoc(st, ins.Field, base)
		fr.locs[ins] = loc
		if loc.Kind == "obj" {
			fr.vals[ins] = loc.Base
		}
		fr.guardedAccess(ins, st, base)
	case *ssa.Field:
		x := fr.val(ins.X)
		si := te.StructInfo(ins.X.Type())
		fr.setVal(ins, fieldOf(x, "mk_"+si.sort, ins.Field, si.fields[ins.Field], si.fsorts[ins.Field]))
	case *ssa.IndexAddr:
		idx := fr.val(ins.Index)
		switch xt := ins.X.Type().Underlying().(type) {
		case *types.Slice:
			s := fr.val(ins.X)
			fr.safe("index", tAnd(tLe(tInt(0), idx), tLt(idx, sLen(s))), ins, "slice index in range")
			loc := te.ElemLoc(xt.Elem(), sArr(s), te.sIdx(sOff(s), idx))
			fr.locs[ins] = loc
			if loc.Kind == "obj" {
				fr.vals[ins] = loc.Base
			}
		case *types.Pointer:
			arr := xt.Elem().Underlying().(*types.Array)
			base := fr.objBase(ins.X)
			fr.safe("index", tAnd(tLe(tInt(0), idx), tLt(idx, tInt(arr.Len()))), ins, "array index in range")
			loc := te.ElemLoc(arr.Elem(), base, idx)
			fr.locs[ins] = loc
			if loc.Kind == "obj" {
				fr.vals[ins] = loc.Base
			}
		default:
			panic("IndexAddr on " + ins.X.Type().String())
		}
	case *ssa.Index:
		x := fr.val(ins.X)
		idx := fr.val(ins.Index)
		switch xt := ins.X.Type().Underlying().(type) {
		case *types.Array:
			fr.safe("index", tAnd(tLe(tInt(0), idx), tLt(idx, tInt(xt.Len()))), ins, "array index in range")
			fr.setVal(ins, tSelect(x, idx))
		case *types.Basic: // string
			fr.safe("index", tAnd(tLe(tInt(0), idx), tLt(idx, strLen(x))), ins, "string index in range")
			fr.setVal(ins, strAt(x, idx))
			fr.vc.assume(inRange(types.Typ[types.Uint8], fr.vals[ins]))
		default:
			panic("Index on " + ins.X.Type().String())
		}
	case *ssa.Lookup:
		x := fr.val(ins.X)
		idx := fr.val(ins.Index)
		if mt, ok := ins.X.Type().Underlying().(*types.Map); ok {
			has, val := fr.mapLookup(fr.cur, mt, x, idx)
			v := tIte(has, val, te.Zero(mt.Elem()))
			if ins.CommaOk {
				fr.tuples[ins] = []Term{vc.define(fr.vname(ins)+"_v", v), vc.define(fr.vname(ins)+"_ok", has)}
			} else {
				fr.setVal(ins, v)
			}
			fr.assumeTyped(mt.Elem(), val)
			return
		}
		// string
		fr.safe("index", tAnd(tLe(tInt(0), idx), tLt(idx, strLen(x))), ins, "string index in range")
		fr.setVal(ins, strAt(x, idx))
		fr.vc.assume(inRange(types.Typ[types.Uint8], fr.vals[ins]))
	case *ssa.UnOp:
		fr.execUnOp(ins)
	case *ssa.BinOp:
		x, y := fr.val(ins.X), fr.val(ins.Y)
		fr.setVal(ins, fr.binop(ins.Op, x, y, ins.X.Type(), ins.Y.Type(), ins.Type(), ins))
	case *ssa.Store:
		loc := fr.addr(ins.Addr)
		v := fr.val(ins.Val)
		fr.checkFrame(loc, ins)
		te.Store(fr.cur, loc, v)
		fr.noteEscapeStore(ins.Val)
	case *ssa.Phi:
		return
	case *ssa.Extract:
		tup, ok := fr.tuples[ins.Tuple]
		if !ok {
			panic("Extract: no tuple for " + ins.Tuple.Name() + " in " + fr.fn.String())
		}
		fr.vals[ins] = tup[ins.Index]
		if c, ok := fr.closures[tupleKey{ins.Tuple, ins.Index}.v()]; ok {
			_ = c
		}
	case *ssa.Call:
		fr.execCall(ins, ins.Common(), ins)
	case *ssa.Defer:
		fr.execDefer(ins)
	case *ssa.RunDefers:
		fr.runDefers(ins)
	case *ssa.Go:
		vc.note("go statement skipped in " + fr.fn.Name())
		for _, a := range ins.Call.Args {
			fr.noteEscape(a)
		}
		if mc, ok := ins.Call.Value.(*ssa.MakeClosure); ok {
			for _, b := range mc.Bindings {
				fr.noteEscape(b)
			}
		}
	case *ssa.Slice:
		fr.execSlice(ins)
	case *ssa.MakeSlice:
		e := ins.Type().Underlying().(*types.Slice).Elem()
		ln, cp := fr.val(ins.Len), fr.val(ins.Cap)
		fr.safe("makeslice", tAnd(tLe(tInt(0), ln), tLe(ln, cp)), ins, "makeslice: len/cap in range")
		ref := fr.newRef("mkslice")
		fr.zeroElems(e, ref)
		fr.setVal(ins, mkSlice(ref, tInt(0), ln, cp))
	case *ssa.MakeMap:
		mt := ins.Type().Underlying().(*types.Map)
		ref := fr.newRef("mkmap")
		hn, _ := te.mapHeaps(mt)
		hs := te.mapHasSort(mt)
		h := fr.cur.Get(hn, hs)
		fr.cur.Set(hn, vc.define(hn+"!s", tStore(h, ref, Term{fmt.Sprintf("((as const %s) false)", arrayElemSort(hs)), arrayElemSort(hs)})))
		ml := fr.cur.Get("MapLen", arraySort(SInt, SInt))
		fr.cur.Set("MapLen", vc.define("MapLen!s", tStore(ml, ref, tInt(0))))
		fr.vals[ins] = ref
	case *ssa.MapUpdate:
		mt := ins.Map.Type().Underlying().(*types.Map)
		m := fr.val(ins.Map)
		fr.safe("nil-map", tNot(tEq(m, tInt(0))), ins, "assignment to entry in nil map")
		fr.mapStore(fr.cur, mt, m, fr.val(ins.Key), fr.val(ins.Value), ins)
		fr.noteEscapeStore(ins.Value)
	case *ssa.MakeInterface:
		xt := ins.X.Type()
		x := fr.val(ins.X)
		fr.setVal(ins, Term{fmt.Sprintf("(mkIface %d %s)", te.TypeTag(xt), te.Box(xt, x).S), SIface})
		fr.noteEscapeStore(ins.X)
	case *ssa.ChangeInterface:
		fr.vals[ins] = fr.val(ins.X)
	case *ssa.ChangeType:
		fr.vals[ins] = fr.val(ins.X)
		if l, ok := fr.locs[ins.X]; ok {
			fr.locs[ins] = l
		}
		if c, ok := fr.closures[ins.X]; ok {
			fr.closures[ins] = c
		}
	case *ssa.Convert:
		fr.execConvert(ins)
	case *ssa.TypeAssert:
		fr.execTypeAssert(ins)
	case *ssa.MakeClosure:
		fn := ins.Fn.(*ssa.Function)
		ci := &closureInfo{fn: fn}
		for _, b := range ins.Bindings {
			ci.bindVals = append(ci.bindVals, fr.val(b))
			if l, ok := fr.locs[b]; ok {
				ci.bindLocs = append(ci.bindLocs, l)
			} else {
				ci.bindLocs = append(ci.bindLocs, nil)
			}
		}
		fr.closures[ins] = ci
		id := fr.newRef("closure")
		fr.vals[ins] = id
		vc.sess.closureByID[id.S] = ci
	case *ssa.Range:
		fr.execRange(ins)
	case *ssa.Next:
		fr.execNext(ins)
	case *ssa.Return:
		var vals []Term
		for _, r := range ins.Results {
			vals = append(vals, fr.val(r))
		}
		fr.rets = append(fr.rets, retRec{reach: fr.curReach, vals: vals, st: fr.cur.clone(), pos: fr.pos(ins)})
		fr.edge[fr.curBlock] = nil
	case *ssa.If:
		c := fr.val(ins.Cond)
		fr.edge[fr.curBlock] = []Term{c, tNot(c)}
	case *ssa.Jump:
		fr.edge[fr.curBlock] = []Term{tTrue}
	case *ssa.Panic:
		mp := tFalse
		if fr.contract != nil && fr == fr.vc.top {
			for _, c := range fr.contract.MayPanic {
				env := fr.specEnv(fr.oldState, fr.oldState)
				env.entryOnly = true
				t, err := env.evalBool(c.E)
				if err != nil {
					vc.sess.fatalf("%s: may_panic: %v", fr.fn, err)
				}
				mp = tOr(mp, t)
			}
		}
		fr.safe("panic", mp, ins, "explicit panic unreachable")
		fr.edge[fr.curBlock] = nil
	case *ssa.SliceToArrayPointer:
		s := fr.val(ins.X)
		n := derefType(ins.Type()).Underlying().(*types.Array).Len()
		fr.safe("slice-to-array", tLe(tInt(n), sLen(s)), ins, "slice to array pointer conversion: length")
		vc.note("SliceToArrayPointer approximated (fresh array object)")
		fr.vals[ins] = fr.havocVal(ins.Type(), fr.vname(ins))
	case *ssa.Send, *ssa.Select, *ssa.MakeChan:
		vc.outOfSub = append(vc.outOfSub, fmt.Sprintf("%T in %s", ins, fr.fn.Name()))
		if v, ok := ins.(ssa.Value); ok {
			if tup, ok := v.Type().(*types.Tuple); ok {
				var ts []Term
				for i := 0; i < tup.Len(); i++ {
					ts = append(ts, fr.havocVal(tup.At(i).Type(), fr.vname(v)))
				}
				fr.tuples[v] = ts
			} else {
				fr.vals[v] = fr.havocVal(v.Type(), fr.vname(v))
			}
		}
	default:
		panic(fmt.Sprintf("execInstr: unhandled %T in %s", ins, fr.fn))
	}
}

type tupleKey struct {
	t ssa.Value
	i int
}

func (k tupleKey) v() ssa.Value { return nil }

// newRef allocates a fresh non-nil reference distinct from all previously allocated ones and from the old heap.
func (fr *Frame) newRef(hint string) Term {
	vc := fr.vc
	r := vc.fresh(hint, SInt)
	var parts []string
	// allocation advances the clock: r is younger than everything that exists so far
	now := vc.define("clk!t", tAdd(fr.cur.Get("clk", SInt), tInt(1)))
	fr.cur.Set("clk", now)
	parts = append(parts, fmt.Sprintf("(> %s 0)", r.S), fmt.Sprintf("(= (atime %s) %s)", r.S, now.S), fmt.Sprintf("(not (old_alloc %s))", r.S))
	vc.sess.te.pre.Add("fn:subtag", "(declare-fun subtag (Int) Int)")
	parts = append(parts, fmt.Sprintf("(= (subtag %s) 0)", r.S))
	for _, a := range vc.allocs {
		parts = append(parts, fmt.Sprintf("(not (= %s %s))", r.S, a.S))
	}
	vc.allocs = append(vc.allocs, r)
	vc.assume(Term{"(and " + strings.Join(parts, " ") + ")", SBool})
	return r
}

func (fr *Frame) zeroElems(e types.Type, ref Term) {
	te := fr.te()
	if te.isAggregate(e) {
		// element objects of a fresh array: fields are zero. Expressed with a quantified assumption per field heap.
		fr.assumeZeroAgg(e, ref)
		return
	}
	hn := te.elemHeap(e)
	es := te.SortOf(e)
	hs := arraySort(SInt, arraySort(SInt, es))
	h := fr.cur.Get(hn, hs)
	fr.cur.Set(hn, fr.vc.define(hn+"!s", tStore(h, ref, Term{fmt.Sprintf("((as const %s) %s)", arraySort(SInt, es), te.Zero(e).S), arraySort(SInt, es)})))
}

func (fr *Frame) assumeZeroAgg(e types.Type, ref Term) {
	te := fr.te()
	if !te.isStructVal(e) {
		fr.vc.note("zero-initialisation of nested array elements not modelled")
		return
	}
	st := e.Underlying().(*types.Struct)
	for i := 0; i < st.NumFields(); i++ {
		ft := st.Field(i).Type()
		if te.isAggregate(ft) {
			fr.vc.note("zero-initialisation of nested aggregate elements not modelled")
			continue
		}
		hn := te.fieldHeap(e, i)
		hs := arraySort(SInt, te.SortOf(ft))
		old := fr.cur.Get(hn, hs)
		nh := fr.cur.Havoc(hn, hs)
		eo := te.elemObj(e, ref, Term{"i", SInt})
		_ = eo
		// forall p: if p is an element of ref then zero else unchanged
		fn := smtName("elem_" + typeName(e))
		ia := smtName("inva_" + fn)
		ii := smtName("invi_" + fn)
		fr.vc.assume(Term{fmt.Sprintf("(forall ((p Int)) (! (= (select %s p) (ite (and (= (%s p) %s) (= p (%s %s (%s p)))) %s (select %s p))) :pattern ((select %s p))))",
			nh.S, ia, ref.S, fn, ref.S, ii, te.Zero(ft).S, old.S, nh.S), SBool})
	}
}

func strLen(s Term) Term { return Term{app("s_len", s.S), SInt} }
func strAt(s, i Term) Term {
	return Term{app("s_at", s.S, i.S), SInt}
}

// objBase returns the reference of the aggregate object that pointer value p points to.
func (fr *Frame) objBase(p ssa.Value) Term {
	if l, ok := fr.locs[p]; ok && l.Kind == "obj" {
		return l.Base
	}
	return fr.val(p)
}

func (fr *Frame) checkNil(p ssa.Value, base Term, ins ssa.Instruction) {
	if fr.nullable[p] {
		fr.safe("nil-deref", tNot(tEq(base, tInt(0))), ins, "nil pointer dereference of "+p.Name())
	}
}

func (fr *Frame) execUnOp(ins *ssa.UnOp) {
	te := fr.te()
	switch ins.Op {
	case token.MUL:
		loc := fr.addr(ins.X)
		if fr.nullable[ins.X] {
			fr.checkNil(ins.X, fr.val(ins.X), ins)
		}
		v := te.Load(fr.cur, loc)
		fr.setVal(ins, v)
		fr.assumeTyped(ins.Type(), fr.vals[ins])
		if mt := derefType(ins.Type()); mt != nil {
			if n, ok := types.Unalias(mt).(*types.Named); ok && (qualName(n) == "sync.Mutex" || qualName(n) == "sync.RWMutex") {
				// mutex pointers held in fields point to separately allocated mutexes, not into other objects
				te.pre.Add("fn:subtag", "(declare-fun subtag (Int) Int)")
				fr.vc.assume(Term{fmt.Sprintf("(= (subtag %s) 0)", fr.vals[ins].S), SBool})
			}
		}
	case token.NOT:
		fr.vals[ins] = tNot(fr.val(ins.X))
	case token.SUB:
		x := fr.val(ins.X)
		if x.Sort == SFloat {
			fr.vals[ins] = fr.uf("float.neg", SFloat, x)
			return
		}
		fr.setVal(ins, wrap(ins.Type(), tSub(tInt(0), x)))
	case token.XOR:
		x := fr.val(ins.X)
		lo, hi, ok := intRange(ins.Type())
		if ok && lo.Sign() == 0 {
			fr.setVal(ins, tSub(Term{hi.String(), SInt}, x))
		} else {
			fr.setVal(ins, tSub(tSub(tInt(0), x), tInt(1)))
		}
	case token.ARROW:
		fr.vc.outOfSub = append(fr.vc.outOfSub, "channel receive in "+fr.fn.Name())
		if ins.CommaOk {
			fr.tuples[ins] = []Term{fr.havocVal(ins.Type().(*types.Tuple).At(0).Type(), fr.vname(ins)), fr.vc.fresh(fr.vname(ins)+"_ok", SBool)}
		} else {
			fr.vals[ins] = fr.havocVal(ins.Type(), fr.vname(ins))
		}
	default:
		panic("execUnOp: " + ins.Op.String())
	}
}

func (fr *Frame) uf(name, rs string, args ...Term) Term {
	var as, ss []string
	for _, a := range args {
		as = append(as, a.S)
		ss = append(ss, a.Sort)
	}
	fr.te().pre.Add("fn:"+name, fmt.Sprintf("(declare-fun %s (%s) %s)", smtName(name), strings.Join(ss, " "), rs))
	return Term{app(smtName(name), as...), rs}
}

func pow2(n int64) *big.Int { return new(big.Int).Lsh(big.NewInt(1), uint(n)) }

func (fr *Frame) binop(op token.Token, x, y Term, xt, yt, rt types.Type, ins ssa.Instruction) Term {
	te := fr.te()
	if x.Sort == SFloat || y.Sort == SFloat {
		switch op {
		case token.EQL:
			return tEq(x, y)
		case token.NEQ:
			return tNot(tEq(x, y))
		case token.LSS, token.LEQ, token.GTR, token.GEQ:
			return fr.uf("float."+op.String(), SBool, x, y)
		}
		return fr.uf("float."+mangle(op.String()), SFloat, x, y)
	}
	switch op {
	case token.ADD:
		if x.Sort == SStr {
			return fr.strConcat(x, y)
		}
		return wrap(rt, tAdd(x, y))
	case token.SUB:
		return wrap(rt, tSub(x, y))
	case token.MUL:
		return wrap(rt, tMul(x, y))
	case token.QUO:
		if ins != nil {
			fr.safe("div-zero", tNot(tEq(y, tInt(0))), ins, "integer division by zero")
		}
		return wrap(rt, goDiv(x, y))
	case token.REM:
		if ins != nil {
			fr.safe("div-zero", tNot(tEq(y, tInt(0))), ins, "integer division by zero")
		}
		return goRem(x, y)
	case token.EQL:
		return fr.equal(x, y, xt)
	case token.NEQ:
		return tNot(fr.equal(x, y, xt))
	case token.LSS:
		if x.Sort == SStr {
			return fr.uf("s_lt", SBool, x, y)
		}
		return tLt(x, y)
	case token.LEQ:
		if x.Sort == SStr {
			return tOr(fr.uf("s_lt", SBool, x, y), tEq(x, y))
		}
		return tLe(x, y)
	case token.GTR:
		if x.Sort == SStr {
			return fr.uf("s_lt", SBool, y, x)
		}
		return tLt(y, x)
	case token.GEQ:
		if x.Sort == SStr {
			return tOr(fr.uf("s_lt", SBool, y, x), tEq(x, y))
		}
		return tLe(y, x)
	case token.LAND:
		return tAnd(x, y)
	case token.LOR:
		return tOr(x, y)
	case token.SHL:
		if n, ok := parseNum(y.S); ok && n.IsInt64() && n.Int64() < 128 {
			return wrap(rt, tMul(x, Term{pow2(n.Int64()).String(), SInt}))
		}
		return wrap(rt, tMul(x, fr.pow2Term(y)))
	case token.SHR:
		if n, ok := parseNum(y.S); ok && n.IsInt64() && n.Int64() < 128 {
			return Term{fmt.Sprintf("(div %s %s)", x.S, pow2(n.Int64()).String()), SInt}
		}
		return Term{fmt.Sprintf("(div %s %s)", x.S, fr.pow2Term(y).S), SInt}
	case token.AND:
		if n, ok := parseNum(y.S); ok && n.Sign() > 0 {
			m := new(big.Int).Add(n, big.NewInt(1))
			if m.BitLen() > 0 && new(big.Int).And(m, n).Sign() == 0 { // n = 2^k-1
				lo, _, _ := intRange(xt)
				if lo != nil && lo.Sign() == 0 {
					return Term{fmt.Sprintf("(mod %s %s)", x.S, m.String()), SInt}
				}
				return Term{fmt.Sprintf("(mod %s %s)", x.S, m.String()), SInt}
			}
		}
		return fr.bitUF("bitand", x, y, rt)
	case token.OR:
		return fr.bitUF("bitor", x, y, rt)
	case token.XOR:
		return fr.bitUF("bitxor", x, y, rt)
	case token.AND_NOT:
		return fr.bitUF("bitandnot", x, y, rt)
	}
	_ = te
	panic("binop: unhandled " + op.String())
}

func (fr *Frame) pow2Term(y Term) Term {
	te := fr.te()
	te.pre.Add("fn:pow2", "(declare-fun pow2 (Int) Int)")
	var ax []string
	for i := 0; i <= 64; i++ {
		ax = append(ax, fmt.Sprintf("(= (pow2 %d) %s)", i, pow2(int64(i)).String()))
	}
	te.pre.Add("ax:pow2", "(assert (and "+strings.Join(ax, " ")+"))")
	te.pre.Add("ax:pow2#2", "(assert (forall ((n Int)) (! (> (pow2 n) 0) :pattern ((pow2 n)))))")
	return Term{app("pow2", y.S), SInt}
}

func (fr *Frame) bitUF(name string, x, y Term, rt types.Type) Term {
	t := fr.uf(name, SInt, x, y)
	fr.vc.assume(inRange(rt, t))
	if name == "bitand" {
		// for non-negative operands: 0 <= x&y <= min(x,y)
		fr.vc.assume(Term{fmt.Sprintf("(=> (and (>= %s 0) (>= %s 0)) (and (>= %s 0) (<= %s %s) (<= %s %s)))", x.S, y.S, t.S, t.S, x.S, t.S, y.S), SBool})
	}
	if name == "bitor" {
		fr.vc.assume(Term{fmt.Sprintf("(=> (and (>= %s 0) (>= %s 0)) (and (>= %s %s) (>= %s %s)))", x.S, y.S, t.S, x.S, t.S, y.S), SBool})
	}
	return t
}

// goDiv is Go's truncated division expressed with SMT's floored div.
func goDiv(x, y Term) Term {
	if a, ok := parseNum(x.S); ok {
		if b, ok := parseNum(y.S); ok && b.Sign() != 0 {
			return Term{bigTerm(new(big.Int).Quo(a, b)), SInt}
		}
	}
	if b, ok := parseNum(y.S); ok && b.Sign() > 0 {
		// x / c  (c>0): trunc toward zero
		return Term{fmt.Sprintf("(ite (>= %s 0) (div %s %s) (- (div (- %s) %s)))", x.S, x.S, y.S, x.S, y.S), SInt}
	}
	return Term{fmt.Sprintf("(ite (>= %s 0) (ite (> %s 0) (div %s %s) (- (div %s (- %s)))) (ite (> %s 0) (- (div (- %s) %s)) (div (- %s) (- %s))))",
		x.S, y.S, x.S, y.S, x.S, y.S, y.S, x.S, y.S, x.S, y.S), SInt}
}

func goRem(x, y Term) Term {
	if a, ok := parseNum(x.S); ok {
		if b, ok := parseNum(y.S); ok && b.Sign() != 0 {
			return Term{bigTerm(new(big.Int).Rem(a, b)), SInt}
		}
	}
	q := goDiv(x, y)
	return Term{fmt.Sprintf("(- %s (* %s %s))", x.S, q.S, y.S), SInt}
}

func (fr *Frame) equal(x, y Term, t types.Type) Term {
	if x.Sort == SIface && y.Sort == SIface {
		// comparison with nil is on the tag
		if y.S == "(mkIface 0 0)" {
			return tEq(Term{app("itag", x.S), SInt}, tInt(0))
		}
		if x.S == "(mkIface 0 0)" {
			return tEq(Term{app("itag", y.S), SInt}, tInt(0))
		}
	}
	if x.Sort == SSlice {
		// in Go only comparison with nil is legal; specs may compare slice headers structurally
		if x.S == "(mkSlice 0 0 0 0)" {
			return tEq(sArr(y), tInt(0))
		}
		if y.S == "(mkSlice 0 0 0 0)" {
			return tEq(sArr(x), tInt(0))
		}
		return tEq(x, y)
	}
	return tEq(x, y)
}

func (fr *Frame) strConcat(x, y Term) Term {
	te := fr.te()
	te.pre.Add("fn:s_cat", "(declare-fun s_cat (Str Str) Str)")
	te.pre.Add("ax:s_cat", "(assert (forall ((a Str) (b Str)) (! (= (s_len (s_cat a b)) (+ (s_len a) (s_len b))) :pattern ((s_cat a b)))))")
	te.pre.Add("ax:s_cat#2", "(assert (forall ((a Str) (b Str) (i Int)) (! (= (s_at (s_cat a b) i) (ite (< i (s_len a)) (s_at a i) (s_at b (- i (s_len a))))) :pattern ((s_at (s_cat a b) i)))))")
	return Term{app("s_cat", x.S, y.S), SStr}
}

func (te *TypeEnv) strSub() {
	te.pre.Add("fn:s_sub", "(declare-fun s_sub (Str Int Int) Str)")
	te.pre.Add("ax:s_sub", "(assert (forall ((s Str) (lo Int) (hi Int)) (! (=> (and (<= 0 lo) (<= lo hi) (<= hi (s_len s))) (= (s_len (s_sub s lo hi)) (- hi lo))) :pattern ((s_sub s lo hi)))))")
	te.pre.Add("ax:s_sub#2", "(assert (forall ((s Str) (lo Int) (hi Int) (i Int)) (! (=> (and (<= 0 lo) (<= lo hi) (<= hi (s_len s)) (<= 0 i) (< i (- hi lo))) (= (s_at (s_sub s lo hi) i) (s_at s (+ lo i)))) :pattern ((s_at (s_sub s lo hi) i)))))")
	te.pre.Add("ax:s_sub#3", "(assert (forall ((s Str)) (! (= (s_sub s 0 (s_len s)) s) :pattern ((s_sub s 0 (s_len s))))))")
}

func (fr *Frame) execSlice(ins *ssa.Slice) {
	te := fr.te()
	var lo, hi, mx Term
	has := func(v ssa.Value) bool { return v != nil }
	switch xt := ins.X.Type().Underlying().(type) {
	case *types.Slice:
		s := fr.val(ins.X)
		lo = tInt(0)
		if has(ins.Low) {
			lo = fr.val(ins.Low)
		}
		hi = sLen(s)
		if has(ins.High) {
			hi = fr.val(ins.High)
		}
		mx = sCap(s)
		if has(ins.Max) {
			mx = fr.val(ins.Max)
			fr.safe("slice-bounds", tAnd(tLe(tInt(0), lo), tLe(lo, hi), tLe(hi, mx), tLe(mx, sCap(s))), ins, "slice bounds in range (3-index)")
		} else {
			fr.safe("slice-bounds", tAnd(tLe(tInt(0), lo), tLe(lo, hi), tLe(hi, sCap(s))), ins, "slice bounds in range")
		}
		fr.setVal(ins, mkSlice(sArr(s), fr.te().sIdx(sOff(s), lo), tSub(hi, lo), tSub(mx, lo)))
	case *types.Basic: // string
		s := fr.val(ins.X)
		lo = tInt(0)
		if has(ins.Low) {
			lo = fr.val(ins.Low)
		}
		hi = strLen(s)
		if has(ins.High) {
			hi = fr.val(ins.High)
		}
		fr.safe("slice-bounds", tAnd(tLe(tInt(0), lo), tLe(lo, hi), tLe(hi, strLen(s))), ins, "string slice bounds in range")
		te.strSub()
		fr.setVal(ins, Term{app("s_sub", s.S, lo.S, hi.S), SStr})
	case *types.Pointer:
		arr := xt.Elem().Underlying().(*types.Array)
		base := fr.objBase(ins.X)
		n := tInt(arr.Len())
		lo = tInt(0)
		if has(ins.Low) {
			lo = fr.val(ins.Low)
		}
		hi = n
		if has(ins.High) {
			hi = fr.val(ins.High)
		}
		mx = n
		if has(ins.Max) {
			mx = fr.val(ins.Max)
		}
		fr.safe("slice-bounds", tAnd(tLe(tInt(0), lo), tLe(lo, hi), tLe(hi, mx), tLe(mx, n)), ins, "array slice bounds in range")
		fr.setVal(ins, mkSlice(base, lo, tSub(hi, lo), tSub(mx, lo)))
		if k, ok := parseNum(tSub(hi, lo).S); ok && k.IsInt64() {
			fr.knownLen[ins] = k.Int64()
		}
	default:
		panic("Slice on " + ins.X.Type().String())
	}
}

func (fr *Frame) execConvert(ins *ssa.Convert) {
	te := fr.te()
	x := fr.val(ins.X)
	from, to := ins.X.Type().Underlying(), ins.Type().Underlying()
	fs, ts := te.SortOf(ins.X.Type()), te.SortOf(ins.Type())
	switch {
	case fs == SInt && ts == SInt:
		if _, ok := to.(*types.Basic); ok {
			if _, _, isInt := intRange(ins.Type()); isInt {
				fr.setVal(ins, wrap(ins.Type(), x))
				return
			}
		}
		fr.vals[ins] = x // pointer <-> unsafe.Pointer etc.
	case fs == SStr && ts == SSlice:
		// []byte(s) / []rune(s)
		e := to.(*types.Slice).Elem()
		ref := fr.newRef("bytes")
		if b, ok := e.Underlying().(*types.Basic); ok && b.Kind() == types.Uint8 {
			hn := te.elemHeap(e)
			hs := arraySort(SInt, arraySort(SInt, SInt))
			h := fr.cur.Get(hn, hs)
			inner := fr.vc.fresh("bytesof", arraySort(SInt, SInt))
			fr.vc.assume(Term{fmt.Sprintf("(forall ((i Int)) (! (=> (and (<= 0 i) (< i (s_len %s))) (= (select %s i) (s_at %s i))) :pattern ((select %s i))))", x.S, inner.S, x.S, inner.S), SBool})
			fr.cur.Set(hn, fr.vc.define(hn+"!s", tStore(h, ref, inner)))
			fr.setVal(ins, mkSlice(ref, tInt(0), strLen(x), strLen(x)))
			return
		}
		n := fr.vc.fresh("runeslen", SInt)
		fr.vc.assume(Term{fmt.Sprintf("(and (<= 0 %s) (<= %s (s_len %s)))", n.S, n.S, x.S), SBool})
		fr.zeroElems(e, ref)
		fr.cur.Havoc(te.elemHeap(e), arraySort(SInt, arraySort(SInt, te.SortOf(e))))
		fr.vc.note("[]rune(string) conversion approximated")
		fr.setVal(ins, mkSlice(ref, tInt(0), n, n))
	case fs == SSlice && ts == SStr:
		e := from.(*types.Slice).Elem()
		if b, ok := e.Underlying().(*types.Basic); ok && b.Kind() == types.Uint8 {
			fr.setVal(ins, fr.strOfBytes(fr.cur, x))
			return
		}
		fr.vc.note("string([]rune) conversion approximated")
		fr.vals[ins] = fr.havocVal(ins.Type(), fr.vname(ins))
	case fs == SInt && ts == SStr:
		fr.vals[ins] = fr.uf("s_ofrune", SStr, x)
	case fs == SFloat || ts == SFloat:
		if fs == SFloat && ts == SFloat {
			fr.vals[ins] = x
			return
		}
		if ts == SFloat {
			fr.vals[ins] = fr.uf("float.ofint", SFloat, x)
			return
		}
		v := fr.uf("float.toint", SInt, x)
		fr.setVal(ins, wrap(ins.Type(), v))
	default:
		if fs == ts {
			fr.vals[ins] = x
			return
		}
		panic(fmt.Sprintf("Convert %s -> %s", ins.X.Type(), ins.Type()))
	}
}

// strOfBytes returns the string with the contents of byte slice s in state st.
func (fr *Frame) strOfBytes(st *State, s Term) Term {
	te := fr.te()
	te.pre.Add("fn:s_ofbytes", "(declare-fun s_ofbytes ((Array Int Int) Int Int) Str)")
	te.pre.Add("ax:s_ofbytes", "(assert (forall ((a (Array Int Int)) (o Int) (n Int)) (! (=> (>= n 0) (= (s_len (s_ofbytes a o n)) n)) :pattern ((s_ofbytes a o n)))))")
	te.pre.Add("ax:s_ofbytes#2", "(assert (forall ((a (Array Int Int)) (o Int) (n Int) (i Int)) (! (=> (and (<= 0 i) (< i n)) (= (s_at (s_ofbytes a o n) i) (select a (sidx o i)))) :pattern ((s_at (s_ofbytes a o n) i)))))")
	te.sIdx(Term{"o", SInt}, Term{"i", SInt}) // make sure sidx and its axioms are declared
	h := st.Get(te.elemHeap(types.Typ[types.Uint8]), arraySort(SInt, arraySort(SInt, SInt)))
	return Term{app("s_ofbytes", tSelect(h, sArr(s)).S, sOff(s).S, sLen(s).S), SStr}
}

func (fr *Frame) execTypeAssert(ins *ssa.TypeAssert) {
	te := fr.te()
	x := fr.val(ins.X)
	tag := fieldOf(x, "mkIface", 0, "itag", SInt)
	pay := fieldOf(x, "mkIface", 1, "ival", SInt)
	at := ins.AssertedType
	var ok, v Term
	if _, isIface := at.Underlying().(*types.Interface); isIface {
		// assertion to interface type: succeeds iff dynamic type implements it
		ok = fr.implementsTerm(tag, at)
		v = x
		if !ins.CommaOk {
			fr.safe("type-assert", ok, ins, "interface conversion: dynamic type implements "+at.String())
			fr.vals[ins] = x
			return
		}
		fr.tuples[ins] = []Term{tIte(ok, x, te.Zero(at)), ok}
		return
	}
	ok = tEq(tag, tInt(int64(te.TypeTag(at))))
	v = te.Unbox(at, pay)
	if _, boxedHere := ins.X.(*ssa.MakeInterface); fr.vc.sess.yamlTree && !boxedHere {
		// values of a decoded YAML tree: an interface never holds a typed-nil map or slice (listed assumption)
		switch at.Underlying().(type) {
		case *types.Map:
			fr.vc.assume(tImp(ok, tNot(tEq(v, tInt(0)))))
			fr.vc.assumes["interface values never hold typed-nil maps (values of a decoded YAML tree)"] = true
		}
	}
	if pt := derefType(at); pt != nil {
		if _, boxedHere := ins.X.(*ssa.MakeInterface); !boxedHere {
			if n, isNamed := types.Unalias(pt).(*types.Named); isNamed && n.Obj().Pkg() != nil && !strings.HasPrefix(n.Obj().Pkg().Path(), modPrefix) {
				// records built by a library (e.g. miekg/dns resource records, SVCB key values): an interface value whose
				// dynamic type is a pointer to a library struct does not hold a typed nil pointer (listed assumption)
				fr.vc.assume(tImp(ok, tNot(tEq(v, tInt(0)))))
				fr.vc.assumes["interface values whose dynamic type is a pointer to a library struct ("+n.Obj().Pkg().Path()+") are not typed-nil"] = true
			}
		}
	}
	if !ins.CommaOk {
		fr.safe("type-assert", ok, ins, "type assertion to "+types.TypeString(at, nil)+" succeeds")
		fr.setVal(ins, v)
		fr.assumeTyped(at, fr.vals[ins])
		return
	}
	okd := fr.vc.define(fr.vname(ins)+"_ok", ok)
	vd := fr.vc.define(fr.vname(ins)+"_v", tIte(okd, v, te.Zero(at)))
	fr.assumeTyped(at, vd)
	fr.tuples[ins] = []Term{vd, okd}
}

// implementsTerm: does the dynamic type with tag implement interface type it?
func (fr *Frame) implementsTerm(tag Term, it types.Type) Term {
	te := fr.te()
	iface := it.Underlying().(*types.Interface)
	if iface.NumMethods() == 0 {
		return tNot(tEq(tag, tInt(0)))
	}
	fn := smtName("implements_" + typeName(it))
	te.pre.Add("fn:"+fn, fmt.Sprintf("(declare-fun %s (Int) Bool)", fn))
	te.pre.Add("ax:"+fn, fmt.Sprintf("(assert (not (%s 0)))", fn))
	// known tags
	if n, ok := parseNum(tag.S); ok && n.IsInt64() && n.Int64() > 0 && int(n.Int64()) <= len(te.tagList) {
		dt := te.tagList[n.Int64()-1]
		return tBool(types.Implements(dt, iface))
	}
	return Term{app(fn, tag.S), SBool}
}

func (fr *Frame) noteEscape(v ssa.Value) {
	if t, ok := fr.vals[v]; ok {
		delete(fr.unescaped, t.S)
	}
}

func (fr *Frame) noteEscapeStore(v ssa.Value) {
	if isPointerLike(v.Type()) {
		fr.noteEscape(v)
	}
}

// checkFrame emits the frame obligation for a store to loc.
func (fr *Frame) checkFrame(loc *Loc, ins ssa.Instruction) {
	vc := fr.vc
	top := vc.top
	if top == nil || top.contract == nil || !top.contract.HasMod || top.contract.ModAll || vc.sess.noFrame {
		return
	}
	var base Term
	switch loc.Kind {
	case "global":
		for _, m := range vc.modGlobals {
			if m == loc.Heap {
				return
			}
		}
		vc.oblige(fmt.Sprintf("frame@%s:%d", fr.fn.Name(), vc.sess.pos(fr.pos(ins)).Line), fr.curReach, tFalse, "store to global "+loc.Heap+" not in modifies", fr.pos(ins))
		return
	default:
		base = loc.Base
	}
	// allowed if the base object is fresh (allocated by this function) or listed in modifies for this heap
	heaps := map[string]string{}
	fr.te().heapsOfLoc(loc, heaps)
	var alts []Term
	alts = append(alts, Term{fmt.Sprintf("(not (old_alloc %s))", fr.rootOf(base).S), SBool})
	for h := range heaps {
		for _, m := range vc.modSet {
			if m.heap == h || m.heap == "*" {
				if m.all {
					alts = append(alts, tTrue)
				} else {
					alts = append(alts, tEq(base, m.base))
				}
			}
		}
	}
	vc.oblige(fmt.Sprintf("frame@%s:%d", fr.fn.Name(), vc.sess.pos(fr.pos(ins)).Line), fr.curReach, tOr(alts...), "store target within modifies clause", fr.pos(ins))
}

// rootOf strips sub-object address functions to find the enclosing allocated object.
func (fr *Frame) rootOf(base Term) Term {
	s := base.S
	for strings.HasPrefix(s, "(sub_") || strings.HasPrefix(s, "(|sub_") || strings.HasPrefix(s, "(elem_") || strings.HasPrefix(s, "(|elem_") {
		parts := splitSexp(s[1 : len(s)-1])
		if len(parts) < 2 {
			break
		}
		s = parts[1]
	}
	return Term{s, SInt}
}
