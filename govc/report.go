package main

import (
	"encoding/json"
	"fmt"
	"os"
	"path/filepath"
	"sort"
	"strings"
)

type KnownFinding struct {
	Property   string `json:"property"`
	Function   string `json:"function"`
	Obligation string `json:"obligation"`
	What       string `json:"what"`
	Witness    string `json:"witness"`
	Status     string `json:"status"` // open | fixed
	Commit     string `json:"commit,omitempty"`
}

type KnownFindings struct {
	Findings []KnownFinding `json:"findings"`
}

func loadKnownFindings(verif string) *KnownFindings {
	kf := &KnownFindings{}
	data, err := os.ReadFile(filepath.Join(verif, "known_findings.json"))
	if err != nil {
		return kf
	}
	json.Unmarshal(data, kf)
	return kf
}

func (kf *KnownFindings) match(prop string, r *OblResult) *KnownFinding {
	for i := range kf.Findings {
		f := &kf.Findings[i]
		if f.Status != "open" || f.Property != prop {
			continue
		}
		if f.Function == r.Func && f.Obligation == r.Name {
			return f
		}
	}
	return nil
}

func writeReplay(path, prop string, r *OblResult) {
	m := map[string]any{
		"property":      prop,
		"function":      r.Func,
		"obligation":    r.Name,
		"info":          r.Info,
		"pos":           r.Pos,
		"verdict":       r.Verdict,
		"solver":        r.Solver,
		"smt_file":      r.File,
		"solver_output": truncate(r.Output, 20000),
		"reproduced":    false,
	}
	if r.Verdict == "sat" {
		if r.Values != nil {
			m["model_inputs"] = r.Values
		} else {
			m["model_inputs"] = extractInputs(r)
		}
		m["model_is_candidate_only"] = r.Ground
	}
	b, _ := json.MarshalIndent(m, "", " ")
	os.WriteFile(path, b, 0o644)
}

// extractInputs pulls the values of the symbolic inputs out of the solver's model text.
func extractInputs(r *OblResult) map[string]string {
	out := map[string]string{}
	model := r.Output
	for _, in := range r.vc.inputs {
		if v := modelValue(model, in.Name); v != "" {
			out[in.Desc] = v
		}
	}
	return out
}

// modelValue finds "(define-fun name () Sort value)" in a z3 model.
func modelValue(model, name string) string {
	key := "(define-fun " + name + " ()"
	i := strings.Index(model, key)
	if i < 0 {
		return ""
	}
	rest := model[i+len(key):]
	// skip sort
	rest = strings.TrimLeft(rest, " \n")
	// sort is one sexp
	_, n := readSexp(rest)
	rest = strings.TrimLeft(rest[n:], " \n")
	v, _ := readSexp(rest)
	return strings.Join(strings.Fields(v), " ")
}

func readSexp(s string) (string, int) {
	if s == "" {
		return "", 0
	}
	if s[0] != '(' {
		i := strings.IndexAny(s, " \n)")
		if i < 0 {
			return s, len(s)
		}
		return s[:i], i
	}
	d := 0
	for i := 0; i < len(s); i++ {
		switch s[i] {
		case '(':
			d++
		case ')':
			d--
			if d == 0 {
				return s[:i+1], i + 1
			}
		}
	}
	return s, len(s)
}

func writeEvidence(s *Session, verif, prop, tier string, seed int, cfg PropConfig, vcs []*FnVC, results []*OblResult, funcs, trusted []string,
	byBackend map[string]int, solverTime, wall float64, violations, total, discharged int, kf *KnownFindings, unreachable []string) {
	externs := map[string]bool{}
	assumes := map[string]bool{}
	var imprecise []string
	var outOfSub []string
	for _, vc := range vcs {
		for k := range vc.externUsed {
			externs[k] = true
		}
		for k := range vc.assumes {
			assumes[k] = true
		}
		for _, n := range vc.imprecise {
			imprecise = append(imprecise, vc.contract.Key+": "+n)
		}
		for _, n := range vc.outOfSub {
			outOfSub = append(outOfSub, vc.contract.Key+": "+n)
		}
	}
	var axioms []string
	for _, a := range s.specs.Axioms {
		if a.Lemma {
			continue
		}
		axioms = append(axioms, a.Name+": "+a.Text)
	}
	var samples []any
	n := 0
	for _, r := range results {
		if r.Trivial || r.Cover {
			continue
		}
		if n < 6 {
			samples = append(samples, map[string]any{"function": r.Func, "obligation": r.Name, "statement": r.Info, "pos": r.Pos, "verdict": r.Verdict, "solver": r.Solver, "time_s": r.Time, "smt_file": r.File})
			n++
		}
	}
	var obl []any
	trivial := 0
	covers := map[string]string{}
	for _, r := range results {
		if r.Cover {
			if !r.Info2 {
				covers[r.Func] = r.Verdict
			}
			continue
		}
		if r.Trivial {
			trivial++
		}
		obl = append(obl, map[string]any{"function": r.Func, "obligation": r.Name, "verdict": r.Verdict, "solver": r.Solver, "time_s": round3(r.Time)})
	}
	var known []string
	for _, f := range kf.Findings {
		if f.Property == prop {
			known = append(known, fmt.Sprintf("%s: %s %s — %s", f.Status, f.Function, f.Obligation, f.What))
		}
	}
	trustedBase := []string{
		"go/packages, go/types, go/ssa (golang.org/x/tools v0.29.0) and the Go 1.24.2 toolchain",
		"govc SSA-to-SMT translation and contract parser (this repository, /verif/govc)",
		"SMT solvers z3 5.1.0 (z3-new), z3 4.8.12, cvc5 1.0.3",
	}
	trustedBase = append(trustedBase, cfg.Trusted...)
	for _, k := range sortedBool(externs) {
		trustedBase = append(trustedBase, "assumed contract: "+k)
	}
	for _, k := range trusted {
		trustedBase = append(trustedBase, "trusted body (contract assumed, body not verified): "+k)
	}
	// contracts of repository functions that were applied at call sites in this run although their bodies are not
	// (fully) checked by it: modular reasoning rests on them
	verifiedHere := map[string]bool{}
	for _, vc := range vcs {
		if vc.contract != nil && !vc.contract.CallsitesOnly && !vc.lockOnly {
			verifiedHere[vc.contract.Pkg+"::"+vc.contract.Key] = true
		}
	}
	for _, k := range sortedBool(s.usedContracts) {
		if verifiedHere[k] {
			continue
		}
		var c *Contract
		for _, cc := range s.specs.Contracts {
			if cc.Pkg+"::"+cc.Key == k {
				c = cc
				break
			}
		}
		if c == nil || c.Extern || c.Trusted {
			continue
		}
		switch {
		case strings.HasPrefix(c.Key, "fieldcall.") || strings.HasPrefix(c.Key, "functype."):
			trustedBase = append(trustedBase, "callee contract applied, assumed: "+k+" (contract on a function value: whatever function is stored there is assumed to satisfy it)")
		case c.CallsitesOnly:
			trustedBase = append(trustedBase, "callee contract applied, assumed: "+k+" (callsites-only: its frame and its postconditions other than must- ones are not checked against its body)")
		case len(c.Props) == 0:
			trustedBase = append(trustedBase, "callee contract applied, assumed: "+k+" (no property tag: its body is only covered by the lock sweep of C05, lock clauses)")
		default:
			trustedBase = append(trustedBase, "callee contract applied, checked elsewhere: "+k+" (body verified by the check of "+strings.Join(c.Props, ", ")+")")
		}
	}
	var assumptions []string
	assumptions = append(assumptions, sortedBool(assumes)...)
	for _, a := range axioms {
		assumptions = append(assumptions, "axiom "+a)
	}
	for _, a := range imprecise {
		assumptions = append(assumptions, "over-approximation: "+a)
	}
	if s.noFrame {
		assumptions = append(assumptions, "no_frame: the modifies clauses of the functions under contract are assumed, not checked, for this property (their bodies call wide library code; the obligations proved are the postconditions and call-site clauses)")
	}
	assumptions = append(assumptions,
		"pointer parameters and receivers are non-nil unless declared nullable",
		"integers: mathematical Int with explicit Go wrap-around on every fixed-width operation; int is 64-bit",
		"no concurrency: each function is verified sequentially against contracts",
		"out-of-memory, stack overflow and scheduler effects are not modelled")
	ev := map[string]any{
		"property_id": prop,
		"tier":        tier,
		"seed":        seed,
		"level":       "proof",
		"coverage": map[string]any{
			"obligations":              total,
			"discharged":               discharged,
			"checker_cmd":              fmt.Sprintf("bin/check %s --tier %s  (govc check -prop %s; SSA->SMT; z3-new/z3/cvc5)", prop, tier, prop),
			"trusted_base":             trustedBase,
			"samples":                  samples,
			"functions_under_contract": funcs,
			"by_backend":               byBackend,
			"trivial_by_simplifier":    trivial,
			"solver_time_s":            round3(solverTime),
			"obligation_list":          obl,
			"vacuity_covers":           covers,
			"axioms_consistent_check":  axiomsVerdict,
			"returns_unreachable_under_contract": unreachable,
			"out_of_subset":            outOfSub,
			"bounded":                  cfg.Bounded,
			"known_findings":           known,
			"contract_files":           relFiles(s.specs.Files),
			"note":                     cfg.Note,
		},
		"assumptions": assumptions,
		"wall_s":      round3(wall),
		"violations":  violations,
	}
	b, _ := json.MarshalIndent(ev, "", " ")
	os.MkdirAll(filepath.Join(verif, "evidence"), 0o755)
	os.WriteFile(filepath.Join(verif, "evidence", prop+".json"), b, 0o644)
}

func relFiles(fs []string) []string {
	var out []string
	for _, f := range fs {
		out = append(out, f)
	}
	return out
}

func round3(f float64) float64 { return float64(int(f*1000+0.5)) / 1000 }

func sortedBool(m map[string]bool) []string {
	var ks []string
	for k := range m {
		ks = append(ks, k)
	}
	sort.Strings(ks)
	return ks
}

// tryReplay is implemented per function family in replay.go; returns true when the counterexample was reproduced on the real code.
func tryReplay(s *Session, verif, prop string, r *OblResult, replayPath string) bool {
	return runReplayDriver(s, verif, prop, r, replayPath)
}
